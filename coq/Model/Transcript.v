(** * Model of the Fiat-Shamir transcript usage (src/transcripts.rs, src/protocols/transcript_protocol.rs).
    A transcript is the list of operations applied to it; Merlin/STROBE itself is not modelled: a
    challenge is whatever the oracle returns for the list of operations before it.  Data are
    (length in bytes, little-endian value) pairs. *)
From Coq Require Import List Arith NArith Bool String.
From BP Require Import Model.Codec.
Import ListNotations.
Open Scope N_scope.

Inductive label :=
  | LDomSep | LH | LG | LN | LT | LM | LCi | LProm | LA | Ly | Lz | LL | LR | Le | LA1 | LB
  | Lr1 | Ls1 | Ld1 | LProof | LOther.

Definition all_labels : list label :=
  [LDomSep; LH; LG; LN; LT; LM; LCi; LProm; LA; Ly; Lz; LL; LR; Le; LA1; LB; Lr1; Ls1; Ld1; LProof; LOther].

(** the wire constants *)
Definition label_string (l : label) : string :=
  match l with
  | LDomSep => "dom-sep" | LH => "H" | LG => "G" | LN => "N" | LT => "T" | LM => "M" | LCi => "Ci"
  | LProm => "vi - minimum_value" | LA => "A" | Ly => "y" | Lz => "z" | LL => "L" | LR => "R" | Le => "e"
  | LA1 => "A1" | LB => "B" | Lr1 => "r1" | Ls1 => "s1" | Ld1 => "d1" | LProof => "proof" | LOther => "?"
  end%string.

Definition label_code (l : label) : N :=
  match l with
  | LDomSep => 0 | LH => 1 | LG => 2 | LN => 3 | LT => 4 | LM => 5 | LCi => 6 | LProm => 7 | LA => 8 | Ly => 9
  | Lz => 10 | LL => 11 | LR => 12 | Le => 13 | LA1 => 14 | LB => 15 | Lr1 => 16 | Ls1 => 17 | Ld1 => 18
  | LProof => 19 | LOther => 20
  end.

(** "Bulletproofs+ Range Proof" as a little-endian number (25 bytes) *)
Definition DOMSEP_VALUE : N := 642996763547402877569250092159269284339988305323596326925634.
Definition DOMSEP_LEN : nat := 25.

Inductive op :=
  | OApp (l : label) (len : nat) (v : N)            (* append_message *)
  | OChal (l : label) (len : nat)                   (* challenge_bytes *)
  | ORng (witness : option (nat * N))               (* build_rng, optional rekey with "witness" bytes, finalize *)
  | OFill (len : nat).                              (* bytes drawn from the transcript RNG *)

(** public data of a statement as the transcript sees it *)
Record tstmt := mkTstmt {
  ts_bits : N; ts_T : N; ts_Henc : N; ts_Gbenc : list N; ts_Venc : list N; ts_promises : list (option N) }.

Definition is_identity_enc (e : N) : bool := e =? 0.

(** [validate_and_append_point]: [None] = error (identity) *)
Definition app_point (l : label) (e : N) : option (list op) :=
  if is_identity_enc e then None else Some [OApp l 32 e].

Fixpoint app_points (l : label) (es : list N) : option (list op) :=
  match es with
  | [] => Some []
  | e :: es' =>
      match app_point l e, app_points l es' with
      | Some a, Some b => Some (a ++ b)
      | _, _ => None
      end
  end.

Definition promise_value (p : option N) : N := match p with Some v => v | None => 0 end.

(** RangeProofTranscript::new (src/transcripts.rs:60-122) *)
Definition ops_new (s : tstmt) (witness : option (nat * N)) : option (list op) :=
  match app_point LH (ts_Henc s), app_points LG (ts_Gbenc s) with
  | Some h, Some g =>
      Some ([OApp LDomSep DOMSEP_LEN DOMSEP_VALUE] ++ h ++ g
            ++ [OApp LN 8 (ts_bits s); OApp LT 8 (ts_T s); OApp LM 8 (N.of_nat (List.length (ts_Venc s)))]
            ++ map (fun e => OApp LCi 32 e) (ts_Venc s)
            ++ map (fun p => OApp LProm 8 (promise_value p)) (ts_promises s)
            ++ [ORng witness])
  | _, _ => None
  end.

(** challenges_y_z *)
Definition ops_yz (a : N) (witness : option (nat * N)) : option (list op) :=
  match app_point LA a with
  | Some x => Some (x ++ [ORng witness; OChal Ly 64; OChal Lz 64])
  | None => None
  end.

(** challenge_round_e *)
Definition ops_round (l r : N) (witness : option (nat * N)) : option (list op) :=
  match app_point LL l, app_point LR r with
  | Some x, Some y => Some (x ++ y ++ [ORng witness; OChal Le 64])
  | _, _ => None
  end.

(** challenge_final_e *)
Definition ops_final (a1 b : N) (witness : option (nat * N)) : option (list op) :=
  match app_point LA1 a1, app_point LB b with
  | Some x, Some y => Some (x ++ y ++ [ORng witness; OChal Le 64])
  | _, _ => None
  end.

(** to_verifier_rng followed by next_u64 *)
Definition ops_verifier_rng (r1 s1 : N) (d1 : list N) : list op :=
  [OApp Lr1 32 r1; OApp Ls1 32 s1] ++ map (fun d => OApp Ld1 32 d) d1 ++ [ORng None; OFill 8].

Fixpoint ops_rounds (lr : list (N * N)) (witness : option (nat * N)) : option (list op) :=
  match lr with
  | [] => Some []
  | (l, r) :: rest =>
      match ops_round l r witness, ops_rounds rest witness with
      | Some a, Some b => Some (a ++ b)
      | _, _ => None
      end
  end.

Definition osome_app {A} (a b : option (list A)) : option (list A) :=
  match a, b with Some x, Some y => Some (x ++ y) | _, _ => None end.

(** Everything the verifier does to one proof's transcript, in order ([None] = identity point met). *)
Definition verifier_ops (s : tstmt) (p : proof) : option (list op) :=
  osome_app (ops_new s None)
   (osome_app (ops_yz (p_a p) None)
     (osome_app (ops_rounds (combine (p_li p) (p_ri p)) None)
       (osome_app (ops_final (p_a1 p) (p_b p) None)
          (Some (ops_verifier_rng (p_r1 p) (p_s1 p) (p_d1 p)))))).

(** weight transcript: one u64 per proof, then the RNG from which every weight is drawn *)
(** "Bulletproofs+ verifier weights" (30 bytes, little endian): Transcript::new absorbs its label under "dom-sep" *)
Definition WEIGHT_LABEL_VALUE : N := 796839178713745593641420068127633377994659316352248693810307699034584386.
Definition weight_ops (u64s : list N) (draws : nat) : list op :=
  [OApp LDomSep 30 WEIGHT_LABEL_VALUE] ++ map (fun u => OApp LProof 8 u) u64s ++ [ORng None] ++ repeat (OFill 64) draws.

(** ** comparison with an observed log *)
Definition opt_wit_eqb (a b : option (nat * N)) : bool :=
  match a, b with
  | None, None => true
  | Some (l1, v1), Some (l2, v2) => Nat.eqb l1 l2 && (v1 =? v2)
  | _, _ => false
  end.
Definition op_eqb (a b : op) : bool :=
  match a, b with
  | OApp l1 n1 v1, OApp l2 n2 v2 => (label_code l1 =? label_code l2) && Nat.eqb n1 n2 && (v1 =? v2)
  | OChal l1 n1, OChal l2 n2 => (label_code l1 =? label_code l2) && Nat.eqb n1 n2
  | ORng w1, ORng w2 => opt_wit_eqb w1 w2
  | OFill n1, OFill n2 => Nat.eqb n1 n2
  | _, _ => false
  end.
Fixpoint ops_eqb (a b : list op) : bool :=
  match a, b with
  | [], [] => true
  | x :: a', y :: b' => op_eqb x y && ops_eqb a' b'
  | _, _ => false
  end.
(** [a] is a prefix of [b] (a run that stopped with an error has applied a prefix) *)
Fixpoint ops_prefixb (a b : list op) : bool :=
  match a, b with
  | [], _ => true
  | x :: a', y :: b' => op_eqb x y && ops_prefixb a' b'
  | _, [] => false
  end.
