(** * Top level of the verifier: guards, chunking, per-proof loop, result
    (src/range_proof.rs:610-1062, src/utils/generic.rs:63-82).
    Oracles (Fiat-Shamir challenges, batch weights, seed-derived nonces) and the facts only the group
    back end can decide (does a point decompress? is the final multiscalar product the identity?) are
    inputs. *)
From Coq Require Import List Arith NArith Bool.
From BP Require Import Base.Field Model.Ctor Model.Codec Model.Transcript Model.Verifier.
Import ListNotations.

Inductive result (A : Type) := Ok (a : A) | Err.
Arguments Ok {A}. Arguments Err {A}.

Inductive vmode := VerifyOnly | RecoverAndVerify | RecoverOnly.

Definition MAX_BATCH : nat := 256.

(** checked usize arithmetic *)
Definition usize_ok (x : N) : bool := (x <? 2 ^ 64)%N.
Definition cmul (a b : N) : option N := let r := (a * b)%N in if usize_ok r then Some r else None.
Definition csub (a b : N) : option N := if (b <=? a)%N then Some (a - b)%N else None.
Definition obind {A B} (o : option A) (f : A -> option B) : option B := match o with Some a => f a | None => None end.

(** compute_generator_padding *)
Definition generator_padding (bits m cap : N) : option N :=
  obind (cmul 2 bits) (fun a => obind (cmul a cap) (fun padded =>
  obind (cmul 2 bits) (fun b => obind (cmul b m) (fun actual => csub padded actual)))).

Section Top.
Variable K : Fld.
Variable ofN : N -> K.                        (* canonical scalar of a proof element *)

Record member := mkMember {
  mb_bits : nat; mb_cap : nat; mb_T : nat;
  mb_Henc : N; mb_Gbenc : list N;
  mb_gens : N;                                (* identity of the vector-generator family *)
  mb_Venc : list N; mb_promises : list (option N);
  mb_seeded : bool;
  mb_proof : proof;
  mb_undecodable : bool;                      (* some point of the proof does not decompress *)
  mb_ch : chals K;                            (* oracle: the challenges the transcript returns *)
  mb_nonce : nlabel -> option nat -> nat -> K (* oracle: seed-derived nonces (if seeded) *)
}.

Definition mb_m (mb : member) : nat := length (mb_Venc mb).
Definition mb_N (mb : member) : nat := (mb_m mb * mb_bits mb)%nat.

Definition tstmt_of (mb : member) : tstmt :=
  mkTstmt (N.of_nat (mb_bits mb)) (N.of_nat (mb_T mb)) (mb_Henc mb) (mb_Gbenc mb) (mb_Venc mb) (mb_promises mb).

Fixpoint list_N_eqb (a b : list N) : bool :=
  match a, b with
  | [], [] => true
  | x :: a', y :: b' => (x =? y)%N && list_N_eqb a' b'
  | _, _ => false
  end.

Definition d1_degree_ok (mb : member) (T : nat) : bool :=
  match degree_of_usize (N.of_nat (length (p_d1 (mb_proof mb)))) with
  | Some d => (d =? N.of_nat T)%N
  | None => false
  end.

(** verify_statements_and_generators_consistency: [Some (max_mn, max_index)] or error *)
Fixpoint consistency_rest (first : member) (i : nat) (rest : list member) (max_mn max_index : nat) : option (nat * nat) :=
  match rest with
  | [] => Some (max_mn, max_index)
  | mb :: rest' =>
      if negb (list_N_eqb (mb_Gbenc first) (mb_Gbenc mb)) then None
      else if negb (mb_Henc first =? mb_Henc mb)%N then None
      else if negb (Nat.eqb (mb_bits first) (mb_bits mb)) then None
      else if negb (Nat.eqb (mb_T first) (mb_T mb) && d1_degree_ok mb (mb_T first)) then None
      else if Nat.ltb max_mn (mb_N mb) then consistency_rest first (S i) rest' (mb_N mb) i
      else consistency_rest first (S i) rest' max_mn max_index
  end.

Definition promise_fits (bits : nat) (p : option N) : bool :=
  match p with
  | None => true
  | Some v => negb (Nat.ltb bits 64 && (0 <? N.shiftr v (N.of_nat bits))%N)
  end.

Definition consistency (ms : list member) : option (nat * nat) :=
  match ms with
  | [] => None
  | first :: rest =>
      if negb (d1_degree_ok first (mb_T first)) then None else
      match consistency_rest first 1 rest (mb_N first) 0 with
      | None => None
      | Some (max_mn, max_index) =>
          let mx := nth max_index ms first in
          if forallb (fun mb => forallb (promise_fits (mb_bits first)) (mb_promises mb)) ms
             && forallb (fun mb => (mb_gens mb =? mb_gens mx)%N) ms
          then Some (max_mn, max_index) else None
      end
  end.

Definition chal_ok (c : chals K) : bool :=
  negb (is_zero K (c_y c)) && negb (is_zero K (c_z c)) && forallb (fun e => negb (is_zero K e)) (c_es c)
  && negb (is_zero K (c_e c)).

(** first loop: transcripts and challenges *)
Definition transcript_phase_ok (mb : member) : bool :=
  match verifier_ops (tstmt_of mb) (mb_proof mb) with
  | Some _ => chal_ok (mb_ch mb)
  | None => false
  end.

(** [rounds < 64] is tested first and the power is taken in [N]: the model must stay cheap to run on
    hostile round counts (conjunctions are strict under vm_compute, conditionals are not) *)
Definition rounds_ok (mb : member) : bool :=
  let rounds := length (p_li (mb_proof mb)) in
  if negb (Nat.eqb (length (p_li (mb_proof mb))) (length (p_ri (mb_proof mb)))) then false
  else if negb (Nat.ltb rounds 64) then false
  else (2 ^ N.of_nat rounds =? N.of_nat (mb_N mb))%N.

Definition vproof_of (p : proof) : vproof K := mkVproof K (map ofN (p_d1 p)) (ofN (p_r1 p)) (ofN (p_s1 p)).

Definition mask_of (mode : vmode) (mb : member) : option (list K) :=
  match mode with
  | VerifyOnly => None
  | _ => if mb_seeded mb
         then Some (recover_mask K (mb_nonce mb) (mb_bits mb) (mb_m mb) (mb_T mb) (vproof_of (mb_proof mb)) (mb_ch mb))
         else None
  end.

(** second loop *)
Fixpoint proof_loop (mode : vmode) (ms : list member) (ws : list K) (acc : batch_acc K) (masks : list (option (list K)))
  : result (batch_acc K * list (option (list K))) :=
  match ms with
  | [] => Ok (acc, masks)
  | mb :: ms' =>
      if mb_undecodable mb then Err
      else if negb (rounds_ok mb) then Err
      else
        let w := hd (f0 K) ws in
        let masks' := masks ++ [mask_of mode mb] in
        match mode with
        | RecoverOnly => proof_loop mode ms' (tl ws) acc masks'
        | _ =>
            let t := proof_terms K (mb_bits mb) (mb_promises mb) (vproof_of (mb_proof mb)) (mb_ch mb) w in
            proof_loop mode ms' (tl ws) (acc_proof K acc t) masks'
        end
  end.

(** RangeProof::verify on one chunk.  [ws]: the weights drawn from the weight transcript;
    [msm_zero]: whether the final multiscalar product is the identity.  Also returns the scalars of the
    final product for comparison with the implementation. *)
Definition verify_chunk (mode : vmode) (ms : list member) (ws : list K) (msm_zero : bool)
  : result (list (option (list K))) * option (list K * list K) :=
  match consistency ms with
  | None => (Err, None)
  | Some (max_mn, max_index) =>
      if negb (forallb transcript_phase_ok ms) then (Err, None) else
      let first := hd (nth 0 ms (mkMember 0 0 0 0%N [] 0%N [] [] false (mkProof 0 [] 0 0 0 0 0 [] []) false
                                  (mkChals K (f0 K) (f0 K) [] (f0 K)) (fun _ _ _ => f0 K))) ms in
      match proof_loop mode ms ws (acc_init K max_mn (mb_T first)) [] with
      | Err => (Err, None)
      | Ok (acc, masks) =>
          match mode with
          | RecoverOnly => (Ok masks, None)
          | _ =>
              let mx := nth max_index ms first in
              match generator_padding (N.of_nat (mb_bits mx)) (N.of_nat (mb_m mx)) (N.of_nat (mb_cap mx)) with
              | None => (Err, None)
              | Some pad =>
                  let sc := final_msm K acc (N.to_nat pad) in
                  (if msm_zero then Ok masks else Err, Some sc)
              end
          end
      end
  end.

(** slice::chunks *)
Fixpoint chunks_of {A} (fuel c : nat) (l : list A) : list (list A) :=
  match fuel with
  | O => []
  | S f => match l with [] => [] | _ => firstn c l :: chunks_of f c (skipn c l) end
  end.

(** verify_batch: [nt] = number of transcripts supplied; per chunk its weights and final-product flag *)
Fixpoint verify_chunks (mode : vmode) (cs : list (list member)) (orc : list (list K * bool)) (masks : list (option (list K)))
  : result (list (option (list K))) :=
  match cs with
  | [] => Ok masks
  | c :: cs' =>
      let '(ws, z) := hd ([], false) orc in
      match fst (verify_chunk mode c ws z) with
      | Err => Err
      | Ok m => verify_chunks mode cs' (tl orc) (masks ++ m)
      end
  end.

Definition verify_batch (mode : vmode) (nstatements nproofs ntranscripts : nat) (ms : list member) (orc : list (list K * bool))
  : result (list (option (list K))) :=
  if Nat.eqb nstatements 0 || Nat.eqb nproofs 0 || Nat.eqb ntranscripts 0 then Err
  else if negb (Nat.eqb nstatements nproofs) then Err
  else if negb (Nat.eqb ntranscripts nstatements) then Err
  else verify_chunks mode (chunks_of (length ms) MAX_BATCH ms) orc [].
End Top.
