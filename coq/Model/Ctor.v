(** * Model of the validating constructors (C17).
    Source: src/range_parameters.rs:32-58, src/range_statement.rs:36-74, src/range_witness.rs:24-41,
    src/commitment_opening.rs:29-37, src/extended_mask.rs:21-30, src/generators/pedersen_gens.rs:68-123.
    Each function returns [Some stored_values] on success and [None] on error; sizes are unbounded [N]
    (the Rust [usize]/[u8] ranges only matter for the two conversions, where they are explicit). *)
From Coq Require Import NArith List Bool.
Import ListNotations.
Open Scope N_scope.

(** [usize::is_power_of_two]: documented as "self == 2^k for some k". *)
Definition is_pow2 (x : N) : bool := negb (x =? 0) && (2 ^ N.log2 x =? x).

Definition MAX_BITS : N := 64.

(** RangeParameters::init(bit_length, max_aggregation_factor, pc_gens): stored (bits, capacity). *)
Definition params_init (bits cap : N) : option (N * N) :=
  if negb (is_pow2 cap) then None
  else if negb (is_pow2 bits) then None
  else if MAX_BITS <? bits then None
  else Some (bits, cap).

(** RangeStatement::init: [count] commitments, [pcount] promises, seed present?, generator capacity. *)
Definition statement_init (cap count pcount : N) (seed : bool) : option (N * N * bool) :=
  if negb (is_pow2 count) then None
  else if negb (pcount =? count) then None
  else if cap <? count then None
  else if seed && (1 <? count) then None
  else Some (count, pcount, seed).

(** ExtensionDegree::try_from(u8) / try_from(usize) *)
Definition degree_of_u8 (x : N) : option N := if (1 <=? x) && (x <=? 6) then Some x else None.
Definition degree_of_usize (x : N) : option N := if x <? 256 then degree_of_u8 x else None.

(** CommitmentOpening::r_len *)
Definition r_len (c : N) : option N := if c =? 0 then None else Some c.

(** RangeWitness::init on the list of blinding counts of the openings: stored (opening count, degree). *)
Definition witness_init (shape : list N) : option (N * N) :=
  match shape with
  | [] => None
  | c0 :: rest =>
      match r_len c0 with
      | None => None
      | Some d =>
          if forallb (fun c => match r_len c with Some d' => d' =? d | None => false end) rest
          then match degree_of_usize d with Some e => Some (N.of_nat (length shape), e) | None => None end
          else None
      end
  end.

(** ExtendedMask::assign(degree, blindings) with [len] blindings *)
Definition mask_assign (deg len : N) : bool := negb ((len =? 0) || negb (len =? deg)).

(** PedersenGens::commit with [len] blinding factors under extension degree [deg] *)
Definition commit_ok (deg len : N) : bool := negb ((len =? 0) || (deg <? len)).
