(** * prove_with_rng with its error exits: the witness guard (Model/Prover.v [prove_top]), then the proof computation, during which
    the transcript refuses identity points ([prover_ops] of Model/Nonce.v is [None]) and zero challenges ([chal_ok]).  Encodings of
    points and scalars are parameters ([enc], [toN]); the nonces and challenges are the oracles' answers. *)
From Coq Require Import List Arith NArith Bool.
From BP Require Import Base.Field Model.Codec Model.Transcript Model.Verifier Model.VerifyTop Model.Prover Model.Nonce.
Import ListNotations.

Section PF.
Variable K : Fld.
Variable M : Mod K.
Variable toN : K -> N.
Variable enc : M -> N.

Definition wire_of (T : nat) (p : pproof K M) : proof :=
  mkProof (N.of_nat T) (map toN (pp_d1 p)) (enc (pp_A p)) (enc (pp_A1 p)) (enc (pp_B p)) (toN (pp_r1 p)) (toN (pp_s1 p))
          (map enc (pp_L p)) (map enc (pp_R p)).

Definition prove_full (bits cap : nat) (g : gens K M) (commitments : list M) (promises : list (option N))
           (values : list N) (blindings : list (list K)) (wT : nat) (seeded : bool) (nn : nonces K) (ch : pchals K) : option (pproof K M) :=
  let T := length (g_Gb g) in
  match prove_top K M bits cap T g commitments promises values blindings wT nn ch with
  | None => None
  | Some p =>
      let ts := mkTstmt (N.of_nat bits) (N.of_nat T) (enc (g_H g)) (map enc (g_Gb g)) (map enc commitments) promises in
      let w := witness_arg values (map (map toN) blindings) in
      match prover_ops ts seeded (wire_of T p) w with
      | None => None                                            (* an absorbed point is the identity *)
      | Some _ =>
          if chal_ok K (mkChals K (pc_y ch) (pc_z ch) (pc_es ch) (pc_e ch)) then Some p else None   (* a challenge is zero *)
      end
  end.
End PF.
