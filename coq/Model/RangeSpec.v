(** * Textbook specification of the Bulletproofs+ range proof (paper Fig. 3) on top of the weighted
    inner-product argument of Model/Spec.v, extended to [T] blinding generators, aggregation over [m]
    commitments and minimum-value promises.  Nothing here is optimised: sums are naive sums, the vector
    [d] is written index by index, the generators are folded round by round.
    This is what Model/Verifier.v (code-shaped) is proved equal to in Proofs/VerifierEquivP.v and what
    Model/Prover.v (code-shaped) is proved to satisfy in Proofs/CompleteP.v. *)
From Coq Require Import List Arith NArith Bool.
From BP Require Import Base.Field Model.Spec.
Import ListNotations.

Section RangeSpec.
Variable K : Fld.
Variable M : Mod K.
Local Open Scope F_scope.
Notation "0" := (f0 K). Notation "1" := (f1 K).
Infix "+v" := (vadd M) (at level 50, left associativity).
Infix "*v" := (smul M) (at level 40).

(** d[j*bits + i] = z^(2(j+1)) * 2^i *)
Definition d_naive (bits m : nat) (z : K) : list K :=
  flat_map (fun j => map (fun i => fpow K (z * z) (S j) * fpow K (two K) i) (seq 0 bits)) (seq 0 m).

(** sum_{i=1..n} y^i *)
Definition ysum_naive (y : K) (n : nat) : K := fsum K (map (fun i => fpow K y (S i)) (seq 0 n)).

(** zeta = (z - z^2) sum_{i=1..N} y^i - z y^(N+1) sum_i d_i *)
Definition zeta (bits m : nat) (y z : K) : K :=
  let N := (m * bits)%nat in
  (z - z * z) * ysum_naive y N - z * fpow K y (S N) * fsum K (d_naive bits m z).

(** scalar of H_i in P_0: z + d_i y^(N-i) *)
Definition h_shift (bits m : nat) (y z : K) : list K :=
  let N := (m * bits)%nat in
  map2 (fun di i => z + di * fpow K y (N - i)) (d_naive bits m z) (seq 0 N).

(** the commitment with its promise removed: V_j - p_j H *)
Definition shifted (H : M) (V : M) (p : option N) : M :=
  match p with Some mv => V +v (- fofN K mv) *v H | None => V end.

(** weights of the commitments: y^(N+1) z^(2(j+1)) *)
Definition v_weights (bits m : nat) (y z : K) : list K :=
  map (fun j => fpow K y (S (m * bits)) * fpow K (z * z) (S j)) (seq 0 m).

(** P_0 = A - z sum G_i + sum (z + d_i y^(N-i)) H_i + y^(N+1) sum_j z^(2(j+1)) (V_j - p_j H) + zeta H *)
Definition P0 (bits : nat) (H : M) (G Hs : list M) (Vs : list M) (promises : list (option N)) (A : M) (y z : K) : M :=
  let m := length promises in
  A +v (- z) *v vsum G +v msm (h_shift bits m y z) Hs
    +v msm (v_weights bits m y z) (map2 (shifted H) Vs promises)
    +v zeta bits m y z *v H.

Record rproof := mkRproof { rp_A : M; rp_LR : list (M * M); rp_A1 : M; rp_B : M; rp_r1 : K; rp_s1 : K; rp_d1 : list K }.

(** the textbook verifier's two sides of the final equation *)
Definition spec_sides (bits : nat) (H : M) (Gb G Hs : list M) (Vs : list M) (promises : list (option N))
           (pf : rproof) (y z : K) (es : list K) (e : K) : M * M :=
  let '(Pf, Gf, Hf) := verifier_fold K M y es (rp_LR pf) (P0 bits H G Hs Vs promises (rp_A pf) y z) G Hs in
  ((e * e) *v Pf +v e *v rp_A1 pf +v rp_B pf,
   (rp_r1 pf * e) *v hd (v0 M) Gf +v (rp_s1 pf * e) *v hd (v0 M) Hf +v (rp_r1 pf * y * rp_s1 pf) *v H +v msm (rp_d1 pf) Gb).

Definition spec_accepts bits H Gb G Hs Vs promises pf y z es e : Prop :=
  let '(lhs, rhs) := spec_sides bits H Gb G Hs Vs promises pf y z es e in lhs = rhs.

(** right-hand side minus left-hand side *)
Definition spec_residual bits H Gb G Hs Vs promises pf y z es e : M :=
  let '(lhs, rhs) := spec_sides bits H Gb G Hs Vs promises pf y z es e in rhs +v (- (1)) *v lhs.

(** ** the textbook prover's reduction to the weighted inner-product argument *)
Definition aL_hat (z : K) (aL : list K) : list K := map (fun x => x - z) aL.
Definition aR_hat (bits m : nat) (y z : K) (aR : list K) : list K :=
  map2 (fadd K) aR (h_shift bits m y z).
(** alpha_hat_k = alpha_k + y^(N+1) sum_j z^(2(j+1)) r_{j,k} *)
Fixpoint alpha_hat (w : list K) (rs : list (list K)) (alpha : list K) : list K :=
  match w, rs with
  | c :: w', r :: rs' => alpha_hat w' rs' (map2 (fun a x => a + c * x) alpha r)
  | _, _ => alpha
  end.
End RangeSpec.

Arguments rp_A {K M}. Arguments rp_LR {K M}. Arguments rp_A1 {K M}. Arguments rp_B {K M}.
Arguments rp_r1 {K M}. Arguments rp_s1 {K M}. Arguments rp_d1 {K M}.
