(** * Code-shaped model of the prover (src/range_proof.rs:232-608).
    The nonces (alpha, dL, dR, r, s, d, eta) and the Fiat-Shamir challenges are inputs; where they come
    from is Model/Nonce.v.  Points live in an abstract module [M]; [A] is computed through the
    interleaved, zero-padded precomputation table exactly as the code does. *)
From Coq Require Import List Arith NArith Bool.
From BP Require Import Base.Field Model.Verifier.
Import ListNotations.

Section ProverModel.
Variable K : Fld.
Variable M : Mod K.
Local Open Scope F_scope.
Notation "0" := (f0 K). Notation "1" := (f1 K).

Record gens := mkGens {
  g_H : M; g_Gb : list M;
  g_G : list M; g_Hv : list M;       (* all bits*capacity vector generators, party-major *)
}.

(** the precomputation table: G_0, H_0, G_1, H_1, ... *)
Fixpoint interleaveM (a b : list M) : list M :=
  match a, b with x :: a', y :: b' => x :: y :: interleaveM a' b' | _, _ => a ++ b end.
Definition table (g : gens) : list M := interleaveM (g_G g) (g_Hv g).

Record nonces := mkNonces {
  n_alpha : list K; n_dL : list (list K); n_dR : list (list K);   (* per round *)
  n_r : K; n_s : K; n_d : list K; n_eta : list K }.

Record pchals := mkPchals { pc_y : K; pc_z : K; pc_es : list K; pc_e : K }.

Record pproof := mkPproof { pp_A : M; pp_L : list M; pp_R : list M; pp_A1 : M; pp_B : M;
                            pp_r1 : K; pp_s1 : K; pp_d1 : list K }.

(** bit i of x as a scalar: [Scalar::from(x >> i & 1)] *)
Definition bit_scalar (x : N) (i : nat) : K := if N.testbit x (N.of_nat i) then 1 else 0.
Definition bits_of (bits : nat) (x : N) : list K := map (bit_scalar x) (seq 0 bits).

(** a_L: bits of value - promise, all commitments concatenated *)
Definition offset_value (v : N) (p : option N) : N := match p with Some mv => (v - mv)%N | None => v end.
Definition a_L (bits : nat) (values : list N) (promises : list (option N)) : list K :=
  flat_map (fun vp => bits_of bits (offset_value (fst vp) (snd vp))) (combine values promises).

Definition fmap2 := @map2 K K K.

(** alpha offset: alpha_k += z^(2(j+1)) * r_{j,k} * y^(N+1), summed over the openings j *)
Fixpoint alpha_offset (z2 ynm1 zpow : K) (blindings : list (list K)) (alpha : list K) : list K :=
  match blindings with
  | [] => alpha
  | r :: rest =>
      let zpow' := zpow * z2 in
      (* zip(opening.r, alpha): only as many as both have *)
      let alpha' := (fix go (rs al : list K) : list K :=
                       match rs, al with
                       | x :: rs', a :: al' => (a + zpow' * x * ynm1) :: go rs' al'
                       | _, _ => al
                       end) r alpha in
      alpha_offset z2 ynm1 zpow' rest alpha'
  end.

(** weighted inner product sum a[i] * ypow[i] * b[i] over three zipped lists *)
Fixpoint wip3 (a yp b : list K) : K :=
  match a, yp, b with
  | x :: a', p :: yp', z :: b' => x * p * z + wip3 a' yp' b'
  | _, _, _ => 0
  end.

Record pstate := mkPstate { ps_a : list K; ps_b : list K; ps_G : list M; ps_Hv : list M; ps_alpha : list K }.

Definition split_at {A} (n : nat) (l : list A) : list A * list A := (firstn n l, skipn n l).

(** one folding round; returns L, R and the folded state *)
Definition round (g : gens) (ypow : list K) (st : pstate) (dL dR : list K) (e : K) : M * M * pstate :=
  let n := (length (ps_a st) / 2)%nat in
  let '(a_lo, a_hi) := split_at n (ps_a st) in
  let '(b_lo, b_hi) := split_at n (ps_b st) in
  let '(G_lo, G_hi) := split_at n (ps_G st) in
  let '(H_lo, H_hi) := split_at n (ps_Hv st) in
  let yn := nth n ypow 0 in
  let yn_inv := finv K yn in
  let a_lo_off := map (fun s => s * yn_inv) a_lo in
  let a_hi_off := map (fun s => s * yn) a_hi in
  let cL := wip3 a_lo (skipn 1 ypow) b_hi in
  let cR := wip3 a_hi (skipn (n + 1) ypow) b_lo in
  let L := msm ([cL] ++ dL ++ a_lo_off ++ b_hi) ([g_H g] ++ g_Gb g ++ G_hi ++ H_lo) in
  let R := msm ([cR] ++ dR ++ a_hi_off ++ b_lo) ([g_H g] ++ g_Gb g ++ G_lo ++ H_hi) in
  let e_inv := finv K e in
  let e2 := e * e in let e_inv2 := e_inv * e_inv in
  let e_yn_inv := e * yn_inv in
  let G' := map2 (fun lo hi => vadd M (smul M e_inv lo) (smul M e_yn_inv hi)) G_lo G_hi in
  let H' := map2 (fun lo hi => vadd M (smul M e lo) (smul M e_inv hi)) H_lo H_hi in
  let a' := fmap2 (fun lo hi => lo * e + hi * e_inv) a_lo a_hi_off in
  let b' := fmap2 (fun lo hi => lo * e_inv + hi * e) b_lo b_hi in
  let alpha' := (fix go (al dl dr : list K) : list K :=
                   match al, dl, dr with
                   | a :: al', l :: dl', r :: dr' => (a + (l * e2 + r * e_inv2)) :: go al' dl' dr'
                   | _, _, _ => al
                   end) (ps_alpha st) dL dR in
  (L, R, mkPstate a' b' G' H' alpha').

Fixpoint rounds_loop (g : gens) (ypow : list K) (st : pstate) (dLs dRs : list (list K)) (es : list K)
  : list M * list M * pstate :=
  match dLs, dRs, es with
  | dL :: dLs', dR :: dRs', e :: es' =>
      if Nat.leb (length (ps_a st)) 1 then ([], [], st) else
      let '(L, R, st') := round g ypow st dL dR e in
      let '(Ls, Rs, stf) := rounds_loop g ypow st' dLs' dRs' es' in
      (L :: Ls, R :: Rs, stf)
  | _, _, _ => ([], [], st)
  end.

(** the vector commitment A, through the table *)
Definition commit_A (g : gens) (aL aR alpha : list K) (padding : nat) : M :=
  vadd M (msm (interleave K aL aR ++ repeat 0 padding) (table g)) (msm alpha (g_Gb g)).

Definition prove_core (bits cap : nat) (g : gens) (values : list N) (promises : list (option N))
           (blindings : list (list K)) (nn : nonces) (ch : pchals) : pproof :=
  let m := length values in
  let N := (bits * m)%nat in
  let aL := a_L bits values promises in
  let aR := map (fun x => x - 1) aL in
  let padding := (2 * bits * cap - 2 * bits * m)%nat in
  let A := commit_A g aL aR (n_alpha nn) padding in
  let y := pc_y ch in let z := pc_z ch in
  let z2 := z * z in
  let ypow := powers K y (N + 2) in
  let d := d_vec K bits m z2 in
  let aL1 := map (fun x => x - z) aL in
  let aR1 := (fix go (ar dd yp : list K) : list K :=
                match ar, dd, yp with
                | a :: ar', di :: dd', p :: yp' => (a + (di * p + z)) :: go ar' dd' yp'
                | _, _, _ => ar
                end) aR d (skipn 1 (rev ypow)) in
  let alpha1 := alpha_offset z2 (nth (N + 1) ypow 0) 1 blindings (n_alpha nn) in
  let st0 := mkPstate aL1 aR1 (firstn N (g_G g)) (firstn N (g_Hv g)) alpha1 in
  let '(Ls, Rs, st) := rounds_loop g ypow st0 (n_dL nn) (n_dR nn) (pc_es ch) in
  let a0 := nth 0 (ps_a st) 0 in let b0 := nth 0 (ps_b st) 0 in
  let G0 := nth 0 (ps_G st) (v0 M) in let H0 := nth 0 (ps_Hv st) (v0 M) in
  let y1 := nth 1 ypow 0 in
  let r := n_r nn in let s := n_s nn in
  let A1 := vadd M (vadd M (vadd M (smul M r G0) (smul M s H0)) (smul M (r * y1 * b0 + s * y1 * a0) (g_H g)))
                 (msm (n_d nn) (g_Gb g)) in
  let B := vadd M (smul M (r * y1 * s) (g_H g)) (msm (n_eta nn) (g_Gb g)) in
  let e := pc_e ch in
  let e2 := e * e in
  let d1 := (fix go (et dd al : list K) : list K :=
               match et, dd, al with
               | x :: et', di :: dd', a :: al' => (x + di * e + a * e2) :: go et' dd' al'
               | _, _, _ => []
               end) (n_eta nn) (n_d nn) (ps_alpha st) in
  mkPproof A Ls Rs A1 B (r + a0 * e) (s + b0 * e) d1.

(** ** guards (src/range_proof.rs:239-322) over u64 values *)
Definition commit (g : gens) (v : K) (r : list K) : M :=
  vadd M (smul M v (g_H g)) (msm r (g_Gb g)).

Definition witness_valid (bits T : nat) (ofN : N -> K) (g : gens) (commitments : list M) (promises : list (option N))
           (values : list N) (blindings : list (list K)) (wT : nat) : bool :=
  Nat.eqb (length values) (length commitments)
  && Nat.eqb wT T
  && forallb (fun v => negb (Nat.ltb bits 64 && (0 <? N.shiftr v (N.of_nat bits))%N)) values
  && forallb (fun vc => let '(v, r, c) := vc in
                        negb (Nat.eqb (length r) 0) && Nat.leb (length r) T && veqb M (commit g (ofN v) r) c)
             (combine (combine values blindings) commitments)
  && forallb (fun vp => match snd vp with Some mv => (mv <=? fst vp)%N | None => true end) (combine values promises).

(** ** prove_with_rng as a whole: the guard in front of the proof computation (the nonces and challenges are
    the oracles' answers; an error is [None]) *)
Definition prove_top (bits cap T : nat) (g : gens) (commitments : list M) (promises : list (option N))
           (values : list N) (blindings : list (list K)) (wT : nat) (nn : nonces) (ch : pchals) : option pproof :=
  if witness_valid bits T (fofN K) g commitments promises values blindings wT
  then Some (prove_core bits cap g values promises blindings nn ch)
  else None.
End ProverModel.

Arguments g_H {K M}. Arguments g_Gb {K M}. Arguments g_G {K M}. Arguments g_Hv {K M}.
Arguments n_alpha {K}. Arguments n_dL {K}. Arguments n_dR {K}. Arguments n_r {K}. Arguments n_s {K}.
Arguments n_d {K}. Arguments n_eta {K}.
Arguments pc_y {K}. Arguments pc_z {K}. Arguments pc_es {K}. Arguments pc_e {K}.
Arguments pp_A {K M}. Arguments pp_L {K M}. Arguments pp_R {K M}. Arguments pp_A1 {K M}. Arguments pp_B {K M}.
Arguments pp_r1 {K M}. Arguments pp_s1 {K M}. Arguments pp_d1 {K M}.
