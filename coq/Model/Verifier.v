(** * Code-shaped model of the verifier's scalar computation (src/range_proof.rs:756-1062).
    Everything the verifier multiplies points by, for one proof and for a batch, as a function of the
    proof's scalars, the Fiat-Shamir challenges, the statement's promises and the batch weight.  The
    optimisations of the code are kept: index recurrence for the s-vector, running powers of y^-1,
    doubling construction of d and of its sum, closed-form geometric sum, inverse of the product of all
    challenges, accumulation over the batch into vectors of the largest member's length. *)
From Coq Require Import List Arith NArith Bool.
From BP Require Import Base.Field.
Import ListNotations.

Section VerifierModel.
Variable K : Fld.
Local Open Scope F_scope.
Notation "0" := (f0 K). Notation "1" := (f1 K).

(** ** s-vector: s[0] = s0, s[i] = s[i - 2^log2 i] * esq[rounds - 1 - log2 i] *)
Fixpoint s_loop_aux (fuel i rounds : nat) (esq acc : list K) : list K :=
  match fuel with
  | O => acc
  | S fuel' =>
      let lg := Nat.log2 i in
      s_loop_aux fuel' (S i) rounds esq (acc ++ [nth (i - 2 ^ lg) acc 0 * nth (rounds - lg - 1) esq 0])
  end.
(** the loop runs for i in 1..full_length *)
Definition s_loop (full_length : nat) (s0 : K) (esq : list K) : list K :=
  s_loop_aux (full_length - 1) 1 (length esq) esq [s0].

(** ** d vector: d[0] = z^2, d[i] = 2 d[i-1] for i < bits, d[j*bits+i] = d[(j-1)*bits+i] * z^2 *)
Fixpoint d_first (z2 : K) (n : nat) : list K :=   (* [z2; 2 z2; 4 z2; ...] of length n, n >= 1 in the code *)
  match n with O => [] | S k => z2 :: d_first (two K * z2) k end.
Fixpoint d_blocks (z2 : K) (blk : list K) (j : nat) : list K :=
  match j with O => [] | S j' => blk ++ d_blocks z2 (map (fun x => x * z2) blk) j' end.
(** the code pushes z_square unconditionally, then bits-1 doublings, then (m-1) further blocks *)
Definition d_vec (bits m : nat) (z2 : K) : list K :=
  let first := z2 :: d_first (two K * z2) (bits - 1) in
  first ++ d_blocks z2 (map (fun x => x * z2) first) (m - 1).

(** ** sum of d: doubling trick over ilog2(m) steps, times 2^bits - 1 *)
Fixpoint d_sum_loop (steps : nat) (acc tz : K) : K :=
  match steps with O => acc | S k => d_sum_loop k (acc + acc * tz) (tz * tz) end.
Definition d_sum (bits m : nat) (z2 : K) : K :=
  d_sum_loop (Nat.log2 m) z2 z2 * (fpow K (two K) bits - 1).

Record vproof := mkVproof { v_d1 : list K; v_r1 : K; v_s1 : K }.
Record chals := mkChals { c_y : K; c_z : K; c_es : list K; c_e : K }.

(** weighted scalars contributed by one proof *)
Record terms := mkTerms {
  t_gi : list K; t_hi : list K;      (* for G_i, H_i, i < bits*m *)
  t_V : list K;                      (* for the commitments *)
  t_H : K;                           (* value generator *)
  t_Gb : list K;                     (* blinding generators *)
  t_A1 : K; t_B : K; t_A : K;
  t_L : list K; t_R : list K }.

(** running-product loop over (s, rev s, d): yields the G_i and H_i scalars *)
Fixpoint gh_loop (w r1e s1e e2 e2z z yinv : K) (s srev d : list K) (yinv_i ynm_i : K) : list K * list K :=
  match s, srev, d with
  | si :: s', sr :: srev', di :: d' =>
      let g := r1e * yinv_i * si in
      let h := s1e * sr in
      let '(gs, hs) := gh_loop w r1e s1e e2 e2z z yinv s' srev' d' (yinv_i * yinv) (ynm_i * yinv) in
      (w * (g + e2z) :: gs, w * (h - e2 * (di * ynm_i + z)) :: hs)
  | _, _, _ => ([], [])
  end.

Fixpoint v_loop (w e2 z2 ynm1 : K) (zpow : K) (promises : list (option N)) : list K * K :=
  match promises with
  | [] => ([], 0)
  | p :: ps =>
      let zpow' := zpow * z2 in
      let weighted := w * (- e2 * zpow' * ynm1) in
      let '(vs, h) := v_loop w e2 z2 ynm1 zpow' ps in
      (weighted :: vs, match p with Some mv => h - weighted * fofN K mv | None => h end)
  end.

Definition proof_terms (bits : nat) (promises : list (option N)) (pf : vproof) (ch : chals) (w : K) : terms :=
  let m := length promises in
  let N := (m * bits)%nat in
  let y := c_y ch in let z := c_z ch in let e := c_e ch in let es := c_es ch in
  (* batch inversion of es ++ [y; y-1]: every inverse, and the inverse of the product of all *)
  let invs := map (finv K) (es ++ [y; y - 1]) in
  let allinv := fprod K invs in
  let s0 := allinv * y * (y - 1) in
  let y1_inv := nth (S (length es)) invs 0 in
  let y_inv := nth (length es) invs 0 in
  let es_inv := firstn (length es) invs in
  let z2 := z * z in let e2 := e * e in
  let esq := map (fun c => c * c) es in
  let esq_inv := map (fun c => c * c) es_inv in
  let y_nm := fpow K y N in
  let y_nm_1 := y_nm * y in
  let y_sum := y * (y_nm - 1) * y1_inv in
  let d := d_vec bits m z2 in
  let dsum := d_sum bits m z2 in
  let s := s_loop N s0 esq in
  let r1 := v_r1 pf in let s1 := v_s1 pf in
  let '(gs, hs) := gh_loop w (r1 * e) (s1 * e) e2 (e2 * z) z y_inv s (rev s) d 1 y_nm in
  let '(vs, hp) := v_loop w e2 z2 y_nm_1 1 promises in
  mkTerms gs hs vs
    (hp + w * (r1 * y * s1 + e2 * (y_nm_1 * z * dsum + (z2 - z) * y_sum)))
    (map (fun d1 => w * d1) (v_d1 pf))
    (w * (- e)) (- w) (w * (- e2))
    (map (fun c => w * - e2 * c) esq) (map (fun c => w * - e2 * c) esq_inv).

(** ** batch accumulation *)
Fixpoint acc_add (acc xs : list K) : list K :=     (* izip: the shorter (xs) decides how far we add *)
  match acc, xs with
  | a :: acc', x :: xs' => (a + x) :: acc_add acc' xs'
  | _, [] => acc
  | [], _ => []
  end.

Record batch_acc := mkAcc { a_gi : list K; a_hi : list K; a_Gb : list K; a_H : K; a_dyn : list K }.

Definition acc_init (max_mn T : nat) : batch_acc :=
  mkAcc (repeat 0 max_mn) (repeat 0 max_mn) (repeat 0 T) 0 [].

Definition acc_proof (a : batch_acc) (t : terms) : batch_acc :=
  mkAcc (acc_add (a_gi a) (t_gi t)) (acc_add (a_hi a) (t_hi t))
        (acc_add (a_Gb a) (firstn (length (a_Gb a)) (t_Gb t)))
        (a_H a + t_H t)
        (a_dyn a ++ t_V t ++ [t_A1 t; t_B t; t_A t] ++ t_L t ++ t_R t).

Fixpoint interleave (a b : list K) : list K :=
  match a, b with
  | x :: a', y :: b' => x :: y :: interleave a' b'
  | _, _ => a ++ b
  end.

(** static scalars (interleaved, zero padded to the table) and dynamic scalars (code order) of the final MSM *)
Definition final_msm (a : batch_acc) (padding : nat) : list K * list K :=
  (interleave (a_gi a) (a_hi a) ++ repeat 0 padding, a_dyn a ++ a_Gb a ++ [a_H a]).

(** ** mask recovery (src/range_proof.rs:937-961); [nonce label j k] is the seed-derived nonce oracle *)
Inductive nlabel := NAlpha | NdL | NdR | Nd | NEta.
Variable nonce : nlabel -> option nat -> nat -> K.

Fixpoint mask_rounds (k : nat) (j : nat) (esq esq_inv : list K) (acc : K) : K :=
  match esq, esq_inv with
  | c :: esq', ci :: esq_inv' =>
      mask_rounds k (S j) esq' esq_inv' (acc - c * nonce NdL (Some j) k - ci * nonce NdR (Some j) k)
  | _, _ => acc
  end.

Definition recover_mask (bits m T : nat) (pf : vproof) (ch : chals) : list K :=
  let y := c_y ch in let z := c_z ch in let e := c_e ch in let es := c_es ch in
  let es_inv := map (finv K) es in
  let esq := map (fun c => c * c) es in
  let esq_inv := map (fun c => c * c) es_inv in
  let y_nm_1 := fpow K y (m * bits) * y in
  let z2 := z * z in let e2 := e * e in
  map (fun kd => let '(k, d1v) := kd in
         let t := (d1v - nonce NEta None k - e * nonce Nd None k) * finv K e2 in
         let t := t - nonce NAlpha None k in
         let t := mask_rounds k 0 esq esq_inv t in
         t * finv K (z2 * y_nm_1))
      (combine (seq 0 T) (firstn T (v_d1 pf))).
End VerifierModel.

Arguments v_d1 {K}. Arguments v_r1 {K}. Arguments v_s1 {K}.
Arguments c_y {K}. Arguments c_z {K}. Arguments c_es {K}. Arguments c_e {K}.
Arguments t_gi {K}. Arguments t_hi {K}. Arguments t_V {K}. Arguments t_H {K}. Arguments t_Gb {K}.
Arguments t_A1 {K}. Arguments t_B {K}. Arguments t_A {K}. Arguments t_L {K}. Arguments t_R {K}.
Arguments a_gi {K}. Arguments a_hi {K}. Arguments a_Gb {K}. Arguments a_H {K}. Arguments a_dyn {K}.
