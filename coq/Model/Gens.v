(** * Generator derivation (C11): src/generators/bulletproof_gens.rs:83-112, generators_chain.rs:23-49,
    src/ristretto.rs:67-113.
    - vector generator (kind, party i, index j): bytes [64 j, 64 j + 64) of SHAKE256("GeneratorsChain" || kind || LE32(i)),
      kind = 'G' | 'H', mapped to the group by the Ristretto one-way map;
    - blinding generator k (1-based): SHA3-512("RISTRETTO_MASKING_BASEPOINT_" || decimal k) through the same map;
    - value generator: the Ristretto base point. *)
From Coq Require Import Arith NArith ZArith List Bool.
From Bignums Require Import BigZ.
From BP Require Import Crypto.Keccak Crypto.Ristretto Model.Codec.
Import ListNotations.
Open Scope N_scope.

Inductive gkind := KG | KH.
Definition kind_byte (k : gkind) : N := match k with KG => 71 | KH => 72 end.

(** "GeneratorsChain" *)
Definition CHAIN_PREFIX : list N := [71; 101; 110; 101; 114; 97; 116; 111; 114; 115; 67; 104; 97; 105; 110].
Definition chain_label (k : gkind) (party : N) : list N := kind_byte k :: le_bytes 4 party.
Definition chain_input (k : gkind) (party : N) : list N := CHAIN_PREFIX ++ chain_label k party.

(** "RISTRETTO_MASKING_BASEPOINT_" followed by the decimal digit of k (1..6) *)
Definition MASK_PREFIX : list N :=
  [82; 73; 83; 84; 82; 69; 84; 84; 79; 95; 77; 65; 83; 75; 73; 78; 71; 95; 66; 65; 83; 69; 80; 79; 73; 78; 84; 95].
Definition mask_label (k : N) : list N := MASK_PREFIX ++ [48 + k].

Definition bz_of_bytes (bs : list N) : bigZ := BigZ.of_Z (Z.of_N (le_value bs)).

(** 64 uniform bytes -> encoding of the point *)
Definition point_of_uniform (u : list N) : N :=
  Z.to_N (BigZ.to_Z (one_way (bz_of_bytes (firstn 32 u)) (bz_of_bytes (skipn 32 u)))).

(** the first [n] generators of a chain *)
Fixpoint split64 (n : nat) (bs : list N) : list (list N) :=
  match n with O => [] | S k => firstn 64 bs :: split64 k (skipn 64 bs) end.
Definition chain_points (k : gkind) (party : N) (n : nat) : list N :=
  map point_of_uniform (split64 n (shake256 (chain_input k party) (64 * n))).

Definition blinding_point (k : N) : N := point_of_uniform (sha3_512 (mask_label k)).

(** Ristretto base point encoding (RFC 9496) *)
Definition BASEPOINT_ENC : N := 0x762d8de04559a6b68ddd82a56a0be3585f5100c561a984a8714ebc6a0aaef2e2.

(** all vector generators of a parameter set, in the order of the precomputation table:
    G_{0,0}, H_{0,0}, G_{0,1}, H_{0,1}, ... party-major *)
Fixpoint interleaveN (a b : list N) : list N :=
  match a, b with x :: a', y :: b' => x :: y :: interleaveN a' b' | _, _ => a ++ b end.
Definition table_points (bits cap : nat) : list N :=
  interleaveN (flat_map (fun i => chain_points KG (N.of_nat i) bits) (seq 0 cap))
              (flat_map (fun i => chain_points KH (N.of_nat i) bits) (seq 0 cap)).

(** AggregatedGensIter: the first n generators of each of the first m parties *)
Definition aggregated (vecs : list (list N)) (n m : nat) : list N := flat_map (firstn n) (firstn m vecs).
