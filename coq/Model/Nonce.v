(** * Where every prover nonce comes from (src/range_proof.rs:325-333, 437-464, 540-571,
    src/transcripts.rs:90-195, src/utils/generic.rs:30-60, src/protocols/scalar_protocol.rs:23-31). *)
From Coq Require Import List Arith NArith Bool String Ascii.
From BP Require Import Base.Field Model.Codec Model.Transcript Model.Verifier Model.Prover.
Import ListNotations.

(** ** seed-derived nonces: the Blake2b key and persona *)
Definition nlabel_string (l : nlabel) : string :=
  match l with NAlpha => "alpha" | NdL => "dL" | NdR => "dR" | Nd => "d" | NEta => "eta" end%string.

Definition index_bytes (tag : N) (i : option nat) : list N :=
  match i with Some x => tag :: le_bytes 4 (N.of_nat x) | None => [] end.

(** key = 0x00 || seed (32 bytes LE) || ['j' || LE32(j)] || ['k' || LE32(k)]; the label is the persona *)
Definition nonce_key (seed : N) (j k : option nat) : list N :=
  (0 :: le_bytes 32 seed ++ index_bytes 106 j ++ index_bytes 107 k)%N.

(** ** which slot reads which source *)
Inductive slot :=
  | SAlpha (k : nat) | SdL (j k : nat) | SdR (j k : nat) | SR | SS | SD (k : nat) | SEta (k : nat).

Inductive source :=
  | FromRng (instance : nat) (draw : nat)       (* draw-th non-zero output of the instance-th transcript RNG *)
  | FromSeed (l : nlabel) (j : option nat) (k : nat).

(** RNG instances: 0 after the statement is absorbed, 1 after A, 2+j after round j's (L, R), and the
    final masks are drawn from the instance that follows the last round (1 + rounds). *)
Definition source_of (seeded : bool) (T rounds : nat) (s : slot) : source :=
  match s with
  | SAlpha k => if seeded then FromSeed NAlpha None k else FromRng 0 k
  | SdL j k => if seeded then FromSeed NdL (Some j) k else FromRng (1 + j) k
  | SdR j k => if seeded then FromSeed NdR (Some j) k else FromRng (1 + j) (T + k)
  | SR => FromRng (1 + rounds) 0
  | SS => FromRng (1 + rounds) 1
  | SD k => if seeded then FromSeed Nd None k else FromRng (1 + rounds) (2 + k)
  | SEta k => if seeded then FromSeed NEta None k else FromRng (1 + rounds) (2 + T + k)
  end.

Definition all_slots (T rounds : nat) : list slot :=
  map SAlpha (seq 0 T)
  ++ flat_map (fun j => map (SdL j) (seq 0 T) ++ map (SdR j) (seq 0 T)) (seq 0 rounds)
  ++ [SR; SS] ++ map SD (seq 0 T) ++ map SEta (seq 0 T).

Section Assign.
Variable K : Fld.
Variable seed_nonce : nlabel -> option nat -> nat -> K.     (* oracle: Blake2b on (nonce_key, persona) *)
Variable rng : nat -> list K.                               (* oracle: non-zero outputs of each RNG instance *)

Definition read (src : source) : K :=
  match src with
  | FromRng i d => nth d (rng i) (f0 K)
  | FromSeed l j k => seed_nonce l j k
  end.

Definition assign (seeded : bool) (T rounds : nat) : nonces K :=
  let rd s := read (source_of seeded T rounds s) in
  mkNonces K (map (fun k => rd (SAlpha k)) (seq 0 T))
             (map (fun j => map (fun k => rd (SdL j k)) (seq 0 T)) (seq 0 rounds))
             (map (fun j => map (fun k => rd (SdR j k)) (seq 0 T)) (seq 0 rounds))
             (rd SR) (rd SS)
             (map (fun k => rd (SD k)) (seq 0 T)) (map (fun k => rd (SEta k)) (seq 0 T)).
End Assign.

(** ** the prover's transcript operations *)
(** serialised witness: for every opening LE64(v) followed by its blinding factors (32 bytes each) *)
Definition witness_bytes (values : list N) (blindings : list (list N)) : list N :=
  flat_map (fun vr => le_bytes 8 (fst vr) ++ flat_map (le_bytes 32) (snd vr)) (combine values blindings).

Definition witness_arg (values : list N) (blindings : list (list N)) : option (nat * N) :=
  let b := witness_bytes values blindings in Some (List.length b, le_value b).

Definition fills (n : nat) : list op := repeat (OFill 64) n.

Fixpoint prover_round_ops (seeded : bool) (T : nat) (lr : list (N * N)) (w : option (nat * N)) : option (list op) :=
  match lr with
  | [] => Some []
  | (l, r) :: rest =>
      osome_app (Some (if seeded then [] else fills (2 * T)))
        (osome_app (ops_round l r w) (prover_round_ops seeded T rest w))
  end.

Definition prover_ops (s : tstmt) (seeded : bool) (p : proof) (w : option (nat * N)) : option (list op) :=
  let T := N.to_nat (ts_T s) in
  osome_app (ops_new s w)
   (osome_app (Some (if seeded then [] else fills T))
     (osome_app (ops_yz (p_a p) w)
       (osome_app (prover_round_ops seeded T (combine (p_li p) (p_ri p)) w)
         (osome_app (Some (fills (if seeded then 2 else 2 + 2 * T)))
            (ops_final (p_a1 p) (p_b p) w))))).
