(** * Once-initialised statics (C18): src/ristretto.rs:86-113.
    Logical model of [OnceCell::get_or_init] with an argument-free, deterministic initialiser, under an
    arbitrary schedule of thread steps.  Real schedules, memory ordering and data races in dependencies
    are runtime behaviour that this model cannot exhibit (PARTIAL by nature). *)
From Coq Require Import List Arith NArith Bool.
Import ListNotations.

Inductive cell := Uninit | Running (t : nat) | Init (v : N).

(** what a thread may attempt *)
Inductive step :=
  | Enter (t : nat)      (* call get_or_init: becomes the initialiser if the cell is uninitialised *)
  | Finish (t : nat)     (* the initialising thread stores the value it computed *)
  | Read (t : nat).      (* a caller returns with the stored value (only possible once initialised) *)

Section Once.
Variable c : N.          (* the value the (pure, argument-free) initialiser computes *)

(** one step: new cell state and the value returned to the thread, if it returns now *)
Definition do_step (s : cell) (st : step) : cell * option N :=
  match st, s with
  | Enter t, Uninit => (Running t, None)
  | Enter _, _ => (s, None)                         (* someone else initialises / already done: wait or read later *)
  | Finish t, Running t' => if Nat.eqb t t' then (Init c, Some c) else (s, None)
  | Finish _, _ => (s, None)
  | Read _, Init v => (s, Some v)
  | Read _, _ => (s, None)                          (* blocked *)
  end.

Fixpoint run (s : cell) (sched : list step) : cell * list N :=
  match sched with
  | [] => (s, [])
  | st :: rest =>
      let '(s', out) := do_step s st in
      let '(sf, outs) := run s' rest in
      (sf, match out with Some v => v :: outs | None => outs end)
  end.

Definition cell_ok (s : cell) : Prop := match s with Init v => v = c | _ => True end.
End Once.
