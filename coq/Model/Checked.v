(** * The second loop of the verifier with every partial machine operation explicit
    (src/range_proof.rs:868-1061).  Three outcomes: a value, an error return ([Fail]: what `?` propagates),
    or a panic.  Scalar arithmetic is total (field operations); what can go wrong is machine arithmetic on
    usize outside the checked_* calls (the two blocks under allow(arithmetic_side_effects), `1 << log_i`,
    `ilog2`), `.get(..).ok_or(..)?` / `.last().ok_or(..)?` (errors), and the two length assertions of the
    multiscalar back end (curve25519-dalek precomputed_straus.rs:86-87).
    Proofs/CheckedP.v shows that after the round-count guard none of them fires and the values are those
    of the total model (Model/Verifier.v). *)
From Coq Require Import List Arith NArith Bool.
From BP Require Import Base.Field Model.Verifier.
Import ListNotations.

Inductive tri (A : Type) := Val (a : A) | Fail | Panic.
Arguments Val {A}. Arguments Fail {A}. Arguments Panic {A}.
Definition tbind {A B} (x : tri A) (f : A -> tri B) : tri B :=
  match x with Val a => f a | Fail => Fail | Panic => Panic end.

(** usize arithmetic without checks: a panic in debug builds (and a wrapped value in release builds,
    equally unwanted) *)
Definition fits (n : N) : bool := (n <? 2 ^ 64)%N.
Definition u_sub (a b : nat) : tri nat := if Nat.leb b a then Val (a - b) else Panic.
Definition u_add (a b : nat) : tri nat := if fits (N.of_nat a + N.of_nat b) then Val (a + b) else Panic.
Definition u_mul (a b : nat) : tri nat := if fits (N.of_nat a * N.of_nat b) then Val (a * b) else Panic.
Definition u_shl1 (k : nat) : tri nat := if Nat.ltb k 64 then Val (2 ^ k) else Panic.          (* 1 << k *)
Definition u_ilog2 (a : nat) : tri nat := if Nat.eqb a 0 then Panic else Val (Nat.log2 a).      (* usize::ilog2 *)
Definition checked_ilog2 (a : nat) : tri nat := if Nat.eqb a 0 then Fail else Val (Nat.log2 a). (* .checked_ilog2().ok_or(..)? *)
Definition get {A} (l : list A) (i : nat) : tri A := match nth_error l i with Some x => Val x | None => Fail end.
Definition last_of {A} (l : list A) : tri A := match rev l with x :: _ => Val x | [] => Fail end.

Section Checked.
Variable K : Fld.
Local Open Scope F_scope.
Notation "0" := (f0 K). Notation "1" := (f1 K).

(** for i in 1..full_length { log_i = i.checked_ilog2()?; j = 1 << log_i;
      s.push(s.get(i - j)? * challenges_sq.get(rounds - log_i - 1)?) } *)
Fixpoint s_loop_chk (fuel i rounds : nat) (esq acc : list K) : tri (list K) :=
  match fuel with
  | O => Val acc
  | S fuel' =>
      tbind (checked_ilog2 i) (fun lg =>
      tbind (u_shl1 lg) (fun j =>
      tbind (u_sub i j) (fun ij =>
      tbind (get acc ij) (fun a =>
      tbind (u_sub rounds lg) (fun t =>
      tbind (u_sub t 1) (fun ix =>
      tbind (get esq ix) (fun c =>
      s_loop_chk fuel' (S i) rounds esq (acc ++ [a * c]))))))))
  end.
Definition s_vec_chk (full_length : nat) (s0 : K) (esq : list K) : tri (list K) :=
  s_loop_chk (full_length - 1) 1 (length esq) esq [s0].

(** d.push(z_square); for _ in 1..bit_length { d.push(two * d.last()?) } *)
Fixpoint d_first_chk (n : nat) (d : list K) : tri (list K) :=
  match n with
  | O => Val d
  | S k => tbind (last_of d) (fun x => d_first_chk k (d ++ [two K * x]))
  end.
(** for i in 0..bit_length { d.push(d.get((j - 1) * bit_length + i)? * z_square) } *)
Fixpoint d_inner_chk (fuel i j bits : nat) (z2 : K) (d : list K) : tri (list K) :=
  match fuel with
  | O => Val d
  | S fuel' =>
      tbind (u_sub j 1) (fun j1 =>
      tbind (u_mul j1 bits) (fun p =>
      tbind (u_add p i) (fun ix =>
      tbind (get d ix) (fun x =>
      d_inner_chk fuel' (S i) j bits z2 (d ++ [x * z2])))))
  end.
(** for j in 1..aggregation_factor *)
Fixpoint d_outer_chk (fuel j bits : nat) (z2 : K) (d : list K) : tri (list K) :=
  match fuel with
  | O => Val d
  | S fuel' => tbind (d_inner_chk bits 0 j bits z2 d) (fun d' => d_outer_chk fuel' (S j) bits z2 d')
  end.
Definition d_vec_chk (bits m : nat) (z2 : K) : tri (list K) :=
  tbind (d_first_chk (bits - 1) [z2]) (fun d => d_outer_chk (m - 1) 1 bits z2 d).

(** for _ in 0..aggregation_factor.ilog2() { .. }; d_sum *= two_n_minus_one *)
Definition d_sum_chk (bits m : nat) (z2 : K) : tri K :=
  tbind (u_ilog2 m) (fun steps => Val (d_sum_loop K steps z2 z2 * (fpow K (two K) bits - 1))).

(** the rest of the per-proof body is total: running products, izip! (the shortest iterator decides),
    pushes.  [m] is aggregation_factor = commitments.len(); the promises are walked separately (one dynamic
    scalar per PROMISE, one dynamic point per COMMITMENT: the back end compares the two counts). *)
Definition proof_terms_chk (bits m : nat) (promises : list (option N)) (pf : vproof K) (ch : chals K) (w : K) : tri (terms K) :=
  let N := (m * bits)%nat in
  let y := c_y ch in let z := c_z ch in let e := c_e ch in let es := c_es ch in
  let invs := map (finv K) (es ++ [y; y - 1]) in
  let allinv := fprod K invs in
  let s0 := allinv * y * (y - 1) in
  let y1_inv := nth (S (length es)) invs 0 in          (* the two pops cannot fail: two elements were pushed *)
  let y_inv := nth (length es) invs 0 in
  let es_inv := firstn (length es) invs in
  let z2 := z * z in let e2 := e * e in
  let esq := map (fun c => c * c) es in
  let esq_inv := map (fun c => c * c) es_inv in
  let y_nm := fpow K y N in
  let y_nm_1 := y_nm * y in
  let y_sum := y * (y_nm - 1) * y1_inv in
  tbind (d_vec_chk bits m z2) (fun d =>
  tbind (d_sum_chk bits m z2) (fun dsum =>
  tbind (s_vec_chk N s0 esq) (fun s =>
  let r1 := v_r1 pf in let s1 := v_s1 pf in
  let '(gs, hs) := gh_loop K w (r1 * e) (s1 * e) e2 (e2 * z) z y_inv s (rev s) d 1 y_nm in
  let '(vs, hp) := v_loop K w e2 z2 y_nm_1 1 promises in
  Val (mkTerms K gs hs vs
    (hp + w * (r1 * y * s1 + e2 * (y_nm_1 * z * dsum + (z2 - z) * y_sum)))
    (map (fun d1 => w * d1) (v_d1 pf))
    (w * (- e)) (- w) (w * (- e2))
    (map (fun c => w * - e2 * c) esq) (map (fun c => w * - e2 * c) esq_inv))))).

(** the back end's assertions on the final product: as many static scalars as table rows, as many
    dynamic scalars as dynamic points *)
Definition msm_chk (static_scalars table_rows dynamic_scalars dynamic_points : nat) : tri unit :=
  if negb (Nat.eqb static_scalars table_rows) then Panic
  else if negb (Nat.eqb dynamic_scalars dynamic_points) then Panic
  else Val tt.
End Checked.
