(** * Model of the proof byte codec (C15).  Source: src/range_proof.rs:1117-1254.
    Bytes are [N] (< 256, see [bytes_ok]); a compressed point is the little-endian value of its 32-byte
    block (any value below 2^256 — the codec does not validate points); a scalar is its value, canonical
    iff below the group order.  The decoder keeps the shape of the Rust code: [chunks_exact(32)] over the
    tail, sequential parsing, a pairing iterator with a one-element leftover buffer. *)
From Coq Require Import NArith List Bool Arith.
Import ListNotations.
Open Scope N_scope.

Definition Lorder : N := 2 ^ 252 + 27742317777372353535851937790883648493.

Definition bytes_ok (bs : list N) : bool := forallb (fun b => b <? 256) bs.

Fixpoint le_value (bs : list N) : N :=
  match bs with [] => 0 | b :: r => b + 256 * le_value r end.
Fixpoint le_bytes (n : nat) (x : N) : list N :=
  match n with O => [] | S k => (x mod 256) :: le_bytes k (x / 256) end.

Record proof := mkProof {
  p_tag : N; p_d1 : list N; p_a : N; p_a1 : N; p_b : N; p_r1 : N; p_s1 : N; p_li : list N; p_ri : list N }.

(** [slice.chunks_exact(32)]: the full chunks and the remainder. [fuel] bounds the recursion; callers
    pass [length bs]. *)
Fixpoint chunks_exact (fuel : nat) (bs : list N) : list (list N) * list N :=
  match fuel with
  | O => ([], bs)
  | S f =>
      if (length bs <? 32)%nat then ([], bs)
      else let '(cs, r) := chunks_exact f (skipn 32 bs) in (firstn 32 bs :: cs, r)
  end.

Definition parse_scalar (c : list N) : option N :=
  let v := le_value c in if v <? Lorder then Some v else None.

(** [(0..n).map(|_| parse_scalar(&mut chunks)).collect::<Result<Vec<_>,_>>()] *)
Fixpoint parse_scalars (n : nat) (cs : list (list N)) : option (list N * list (list N)) :=
  match n with
  | O => Some ([], cs)
  | S k =>
      match cs with
      | [] => None
      | c :: cs' =>
          match parse_scalar c with
          | None => None
          | Some v => match parse_scalars k cs' with None => None | Some (vs, rest) => Some (v :: vs, rest) end
          end
      end
  end.

(** itertools [tuples::<(_, _)>()] followed by [into_buffer()]: the pairs and whether one element is left. *)
Fixpoint tuples (cs : list (list N)) : list (N * N) * bool :=
  match cs with
  | l :: r :: rest => let '(ps, lo) := tuples rest in ((le_value l, le_value r) :: ps, lo)
  | [_] => ([], true)
  | [] => ([], false)
  end.

Definition from_bytes (bs : list N) : option proof :=
  match bs with
  | [] => None
  | tag :: body =>
      if negb ((1 <=? tag) && (tag <=? 6)) then None else
      let '(cs, rem) := chunks_exact (length body) body in
      match parse_scalars (N.to_nat tag) cs with
      | None => None
      | Some (d1, cs1) =>
          match cs1 with
          | a :: a1 :: b :: r1 :: s1 :: cs2 =>
              match parse_scalar r1, parse_scalar s1 with
              | Some r1v, Some s1v =>
                  let '(ps, leftover) := tuples cs2 in
                  match ps with
                  | [] => None
                  | _ :: _ =>
                      if leftover || negb (match rem with [] => true | _ => false end) then None
                      else Some (mkProof tag d1 (le_value a) (le_value a1) (le_value b) r1v s1v (map fst ps) (map snd ps))
                  end
              | _, _ => None
              end
          | _ => None
          end
      end
  end.

Definition enc32 (x : N) : list N := le_bytes 32 x.

Definition to_bytes (p : proof) : list N :=
  p_tag p :: concat (map enc32 (p_d1 p))
    ++ enc32 (p_a p) ++ enc32 (p_a1 p) ++ enc32 (p_b p) ++ enc32 (p_r1 p) ++ enc32 (p_s1 p)
    ++ concat (map (fun lr => enc32 (fst lr) ++ enc32 (snd lr)) (combine (p_li p) (p_ri p))).

(** Well-formed proofs: what the prover can output and what the decoder produces. *)
Definition wf_proof (p : proof) : Prop :=
  1 <= p_tag p <= 6 /\ length (p_d1 p) = N.to_nat (p_tag p) /\
  Forall (fun x => x < Lorder) (p_d1 p) /\ p_r1 p < Lorder /\ p_s1 p < Lorder /\
  p_a p < 2 ^ 256 /\ p_a1 p < 2 ^ 256 /\ p_b p < 2 ^ 256 /\
  Forall (fun x => x < 2 ^ 256) (p_li p) /\ Forall (fun x => x < 2 ^ 256) (p_ri p) /\
  length (p_li p) = length (p_ri p) /\ (1 <= length (p_li p))%nat.

(** [extension_degree_from_proof_bytes] *)
Definition tag_from_bytes (bs : list N) : option N :=
  match bs with [] => None | t :: _ => if (1 <=? t) && (t <=? 6) then Some t else None end.
