(** * Textbook specification: the zero-knowledge weighted-inner-product argument of Bulletproofs+
    (paper Fig. 1), extended to [T] blinding generators, written without any optimisation, and the
    range-proof reduction (Fig. 3) extended to minimum-value promises.
    This is the paper-shaped counterpart of the code-shaped Model/Prover.v and Model/Verifier.v. *)
From Coq Require Import List Arith NArith Bool.
From BP Require Import Base.Field.
Import ListNotations.

Section Spec.
Variable K : Fld.
Variable M : Mod K.
Local Open Scope F_scope.
Notation "0" := (f0 K). Notation "1" := (f1 K).
Infix "+v" := (vadd M) (at level 50, left associativity).
Infix "*v" := (smul M) (at level 40).

(** weighted inner product with a running power: sum a_i * yp*y^i * b_i *)
Fixpoint wipk (yp y : K) (a b : list K) : K :=
  match a, b with x :: a', z :: b' => x * yp * z + wipk (yp * y) y a' b' | _, _ => 0 end.

Variables (H : M) (Gb : list M).

(** the commitment form P = <a,G> + <b,H> + (a .y b) H + <alpha, Gb> *)
Definition Com (y : K) (a b alpha : list K) (G Hs : list M) : M :=
  msm a G +v msm b Hs +v wipk y y a b *v H +v msm alpha Gb.

Record round_in := mkRound { r_e : K; r_dL : list K; r_dR : list K }.
Definition halves {A} (l : list A) := (firstn (length l / 2) l, skipn (length l / 2) l).

Definition fold_a y e (a : list K) :=
  let '(lo, hi) := halves a in let yh := fpow K y (length lo) in
  map2 (fun x z => e * x + (/ e * yh) * z) lo hi.
Definition fold_b e (b : list K) := let '(lo, hi) := halves b in map2 (fun x z => / e * x + e * z) lo hi.
Definition fold_G y e (G : list M) :=
  let '(lo, hi) := halves G in let yhi := / (fpow K y (length lo)) in
  map2 (fun g k => / e *v g +v (e * yhi) *v k) lo hi.
Definition fold_H e (Hs : list M) := let '(lo, hi) := halves Hs in map2 (fun g k => e *v g +v / e *v k) lo hi.
Definition mk_L y (a b dL : list K) (G Hs : list M) :=
  let '(alo, ahi) := halves a in let '(blo, bhi) := halves b in
  let '(Glo, Ghi) := halves G in let '(Hlo, Hhi) := halves Hs in
  wipk y y alo bhi *v H +v msm dL Gb +v msm (map (fmul K (/ (fpow K y (length alo)))) alo) Ghi +v msm bhi Hlo.
Definition mk_R y (a b dR : list K) (G Hs : list M) :=
  let '(alo, ahi) := halves a in let '(blo, bhi) := halves b in
  let '(Glo, Ghi) := halves G in let '(Hlo, Hhi) := halves Hs in
  wipk (y * fpow K y (length alo)) y ahi blo *v H +v msm dR Gb +v msm (map (fmul K (fpow K y (length alo))) ahi) Glo +v msm blo Hhi.
Definition fold_alpha e (alpha dL dR : list K) :=
  map2 (fadd K) alpha (map2 (fadd K) (map (fmul K (e * e)) dL) (map (fmul K (/ e * / e)) dR)).

(** prover: the (L, R) messages of all rounds *)
Fixpoint prover_msgs y (rs : list round_in) (a b alpha : list K) (G Hs : list M) : list (M * M) :=
  match rs with
  | [] => []
  | r :: rs' =>
      (mk_L y a b (r_dL r) G Hs, mk_R y a b (r_dR r) G Hs)
      :: prover_msgs y rs' (fold_a y (r_e r) a) (fold_b (r_e r) b) (fold_alpha (r_e r) alpha (r_dL r) (r_dR r))
                      (fold_G y (r_e r) G) (fold_H (r_e r) Hs)
  end.
Fixpoint final_state y (rs : list round_in) (a b alpha : list K) : list K * list K * list K :=
  match rs with
  | [] => (a, b, alpha)
  | r :: rs' => final_state y rs' (fold_a y (r_e r) a) (fold_b (r_e r) b) (fold_alpha (r_e r) alpha (r_dL r) (r_dR r))
  end.
(** verifier: fold P and the generators with the same challenges *)
Fixpoint verifier_fold y (es : list K) (LR : list (M * M)) (P : M) (G Hs : list M) : M * list M * list M :=
  match es, LR with
  | e :: es', (L, R) :: LR' => verifier_fold y es' LR' ((e * e) *v L +v P +v (/ e * / e) *v R) (fold_G y e G) (fold_H e Hs)
  | _, _ => (P, G, Hs)
  end.

Definition wf_round (n : nat) (r : round_in) := r_e r <> 0 /\ length (r_dL r) = n /\ length (r_dR r) = n.

(** final round: prover messages and responses, verifier's check *)
Definition final_A1 y a b r s (d : list K) (G Hf : M) : M :=
  r *v G +v s *v Hf +v (r * y * b + s * y * a) *v H +v msm d Gb.
Definition final_B y r s (eta : list K) : M := (r * y * s) *v H +v msm eta Gb.
Definition final_d1 e (alpha d eta : list K) : list K :=
  map2 (fadd K) eta (map2 (fadd K) (map (fmul K e) d) (map (fmul K (e * e)) alpha)).
Definition final_check y e (P A1 B : M) (r1 s1 : K) (d1 : list K) (G Hf : M) : Prop :=
  (e * e) *v P +v e *v A1 +v B = (r1 * e) *v G +v (s1 * e) *v Hf +v (r1 * y * s1) *v H +v msm d1 Gb.
End Spec.

Arguments r_e {K}. Arguments r_dL {K}. Arguments r_dR {K}. Arguments halves {A}.
