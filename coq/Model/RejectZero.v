(** * [Scalar::random_not_zero] (src/protocols/scalar_protocol.rs:23-31): draw until the scalar is non-zero.
    Over a stream of RNG outputs this keeps, in order, the first [n] non-zero draws.  Used for the batch
    weights (verifier) and for every RNG-sourced nonce (prover). *)
From Coq Require Import List.
From BP Require Import Base.Field.
Import ListNotations.

Section RZ.
Variable K : Fld.
Fixpoint take_nonzero (n : nat) (draws : list K) : list K :=
  match draws with
  | [] => []
  | d :: ds =>
      match n with
      | O => []
      | S n' => if is_zero K d then take_nonzero n ds else d :: take_nonzero n' ds
      end
  end.
End RZ.
