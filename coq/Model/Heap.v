(** * Secret-buffer discipline (C20): which heap buffers hold secrets on each code path, which wrapper the
    source gives them, and the resulting allocate / write / wipe / free event sequence.
    This is a model of the *discipline written in the source* (hand-enumerated from
    src/range_proof.rs, src/transcripts.rs, src/utils/generic.rs and the owning types); what zeroize's
    volatile writes, the compiler and the allocator really do is runtime behaviour, observed by the
    allocator harness, not proved. *)
From Coq Require Import List Arith Bool String.
Import ListNotations.
Open Scope string_scope.

Inductive wrapper := Zeroizing | ZeroizeOnDrop | ManualDrop | Plain.
Inductive content := Secret        (* a value, blinding factor, recovered mask, seed, or a direct serialisation of them *)
                   | Derived       (* computed from secrets and public challenges *)
                   | Public.

Record buffer := mkBuf { b_name : string; b_wrap : wrapper; b_content : content; b_count : nat }.

Inductive event := Alloc (b : nat) | WriteE (b : nat) (c : content) | Wipe (b : nat) | Free (b : nat).

Definition wipes (w : wrapper) : bool := match w with Plain => false | _ => true end.

(** life cycle of the i-th buffer *)
Definition life (i : nat) (b : buffer) : list event :=
  [Alloc i; WriteE i (b_content b)] ++ (if wipes (b_wrap b) then [Wipe i] else []) ++ [Free i].

Fixpoint lives (i : nat) (bs : list buffer) : list event :=
  match bs with [] => [] | b :: bs' => life i b ++ lives (S i) bs' end.

(** a free is dirty if the buffer's last secret write is not followed by a wipe *)
Fixpoint dirty_frees (pending : list nat) (es : list event) : list nat :=
  match es with
  | [] => []
  | WriteE i Secret :: es' => dirty_frees (i :: pending) es'
  | Wipe i :: es' => dirty_frees (filter (fun j => negb (Nat.eqb i j)) pending) es'
  | Free i :: es' => (if existsb (Nat.eqb i) pending then [i] else []) ++ dirty_frees pending es'
  | _ :: es' => dirty_frees pending es'
  end.

(** ** the buffers of each path, as a function of (aggregation m, extension degree T, rounds k) *)
(** prover (src/range_proof.rs:232-608, src/transcripts.rs:90-109) *)
Definition prover_buffers (m T k : nat) (seeded : bool) : list buffer :=
  [ mkBuf "witness_bytes (transcript)" Zeroizing Secret 1;
    mkBuf "a_li" Zeroizing Derived (S k); mkBuf "a_ri" Zeroizing Derived (S k);
    mkBuf "alpha" Zeroizing Derived 1;
    mkBuf "d_l" Zeroizing Derived k; mkBuf "d_r" Zeroizing Derived k;
    mkBuf "a_lo_offset" Plain Derived k; mkBuf "a_hi_offset" Plain Derived k;
    mkBuf "d" Zeroizing Derived 1; mkBuf "eta" Zeroizing Derived 1;
    mkBuf "y_powers, d, generators, L, R" Plain Public 1 ]
  ++ (if seeded then [ mkBuf "nonce key (0 || seed || j || k)" Zeroizing Secret (T * (2 * k + 3)) ] else []).

(** verifier with recovery (src/range_proof.rs:937-961) *)
Definition recover_buffers (T k : nat) : list buffer :=
  [ mkBuf "nonce key (0 || seed || j || k)" Zeroizing Secret (T * (2 * k + 3));
    mkBuf "temp_masks -> ExtendedMask" ZeroizeOnDrop Secret 1;
    mkBuf "challenges, scalars, points" Plain Public 1 ].

(** drops of the owning types *)
Definition owner_buffers (m : nat) : list buffer :=
  [ mkBuf "CommitmentOpening.r" ZeroizeOnDrop Secret m;
    mkBuf "RangeWitness.openings" ZeroizeOnDrop Secret 1;
    mkBuf "ExtendedMask.blindings" ZeroizeOnDrop Secret 1;
    mkBuf "RangeStatement.seed_nonce (inline)" ManualDrop Secret 1 ].

Definition disciplined (bs : list buffer) : Prop :=
  forall b, In b bs -> b_content b = Secret -> wipes (b_wrap b) = true.
