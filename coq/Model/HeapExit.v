(** * Secret-buffer discipline under early returns (C20).
    A code path is a list of steps over numbered heap buffers: creation (with the wrapper the source
    gives the buffer AT CREATION), writes, explicit drops.  The path may stop after ANY number of steps
    (an error return through `?`, or a panic unwinding): every buffer still alive is then dropped in
    reverse order of creation, exactly as Rust does.  A drop runs the wrapper's wipe (if it has one) and
    then frees the block.  This refines Model/Heap.v, where every buffer's life cycle was atomic. *)
From Coq Require Import List Arith Bool String.
From BP Require Import Model.Heap.
Import ListNotations.
Close Scope string_scope.
Open Scope list_scope.


Inductive step :=
  | SNew (i : nat) (w : wrapper)        (* allocate buffer i, already inside wrapper w *)
  | SWrite (i : nat) (c : content)      (* store data of kind c in buffer i *)
  | SWrap (i : nat) (w : wrapper)       (* move buffer i into wrapper w (wrapping an existing plain buffer late) *)
  | SDrop (i : nat).                    (* explicit drop / end of scope *)

(** live buffers, most recently created first: (id, wrapper) *)
Definition live := list (nat * wrapper).

Fixpoint wrapper_of (l : live) (i : nat) : wrapper :=
  match l with [] => Plain | (j, w) :: l' => if Nat.eqb i j then w else wrapper_of l' i end.
Fixpoint remove_live (l : live) (i : nat) : live :=
  match l with [] => [] | (j, w) :: l' => if Nat.eqb i j then l' else (j, w) :: remove_live l' i end.
Fixpoint rewrap (l : live) (i : nat) (w : wrapper) : live :=
  match l with [] => [] | (j, w0) :: l' => if Nat.eqb i j then (j, w) :: l' else (j, w0) :: rewrap l' i w end.

Definition drop_events (l : live) (i : nat) : list event :=
  (if wipes (wrapper_of l i) then [Wipe i] else []) ++ [Free i].

Fixpoint exec (prog : list step) (l : live) : list event * live :=
  match prog with
  | [] => ([], l)
  | SNew i w :: p => let '(es, l') := exec p ((i, w) :: l) in (Alloc i :: es, l')
  | SWrite i c :: p => let '(es, l') := exec p l in (WriteE i c :: es, l')
  | SWrap i w :: p => exec p (rewrap l i w)
  | SDrop i :: p => let '(es, l') := exec p (remove_live l i) in (drop_events l i ++ es, l')
  end.

(** unwinding: everything still alive is dropped, most recent first *)
Fixpoint unwind (l : live) : list event :=
  match l with [] => [] | (i, w) :: l' => (if wipes w then [Wipe i] else []) ++ [Free i] ++ unwind l' end.

(** the events of a run that stops after [n] steps *)
Definition run_until (n : nat) (prog : list step) : list event :=
  let '(es, l) := exec (firstn n prog) [] in es ++ unwind l.

(** a free is dirty if the buffer's last sensitive write (secret or claimed-derived) is not followed by a wipe *)
Definition sensitive (c : content) : bool := match c with Secret | Derived => true | Public => false end.
Fixpoint dirty (pending : list nat) (es : list event) : list nat :=
  match es with
  | [] => []
  | WriteE i c :: es' => if sensitive c then dirty (i :: pending) es' else dirty pending es'
  | Wipe i :: es' => dirty (filter (fun j => negb (Nat.eqb i j)) pending) es'
  | Free i :: es' => (if existsb (Nat.eqb i) pending then [i] else []) ++ dirty pending es'
  | _ :: es' => dirty pending es'
  end.

(** the discipline: sensitive data is only ever written into a buffer that is, at that moment, inside a
    wiping wrapper, and wrappers are never taken off *)
Fixpoint disciplined_prog (prog : list step) (l : live) : bool :=
  match prog with
  | [] => true
  | SNew i w :: p => negb (existsb (fun jw => Nat.eqb i (fst jw)) l) && disciplined_prog p ((i, w) :: l)
  | SWrite i c :: p => (negb (sensitive c) || wipes (wrapper_of l i)) && existsb (fun jw => Nat.eqb i (fst jw)) l && disciplined_prog p l
  | SWrap i w :: p => (wipes w || negb (wipes (wrapper_of l i))) && disciplined_prog p (rewrap l i w)
  | SDrop i :: p => disciplined_prog p (remove_live l i)
  end.

(** ** the prover's path (src/range_proof.rs:232-608) for m commitments, k rounds, as steps; buffer ids:
    0 witness bytes, 1 a_li, 2 a_ri, 3 alpha, 4 d, 5 eta, 10..13 the per-round d_l, d_r, a_lo_offset, a_hi_offset
    (created and dropped inside every round, so the numbers are reused).
    [a_lo_offset] / [a_hi_offset] are plain in the source and receive data the property does not
    enumerate (section 5/C20 of DESIGN.md): they are written as [Public] here, i.e. NOT claimed. *)
Fixpoint bit_writes (m : nat) : list step :=
  match m with O => [] | S m' => [SWrite 1 Derived; SWrite 2 Derived] ++ bit_writes m' end.
Definition round_block : list step :=
  [SNew 10 Zeroizing; SWrite 10 Derived; SNew 11 Zeroizing; SWrite 11 Derived;
   SNew 12 Plain; SWrite 12 Public; SNew 13 Plain; SWrite 13 Public;
   SWrite 1 Derived; SWrite 2 Derived; SWrite 3 Derived;
   SDrop 13; SDrop 12; SDrop 11; SDrop 10].
Fixpoint round_steps (k : nat) : list step := match k with O => [] | S k' => round_block ++ round_steps k' end.
Definition prover_program (m k : nat) : list step :=
  [SNew 0 Zeroizing; SWrite 0 Secret; SDrop 0;
   SNew 1 Zeroizing; SNew 2 Zeroizing] ++ bit_writes m ++
  [SNew 3 Zeroizing; SWrite 3 Derived; SWrite 1 Derived; SWrite 2 Derived; SWrite 3 Derived] ++
  round_steps k ++
  [SNew 4 Zeroizing; SWrite 4 Derived; SNew 5 Zeroizing; SWrite 5 Derived; SDrop 5; SDrop 4; SDrop 3; SDrop 2; SDrop 1].

(** the variant in which the bit vectors are wrapped only after the decomposition loop (seeded change C20c) *)
Definition late_wrap_program (m : nat) : list step :=
  [SNew 1 Plain; SNew 2 Plain] ++ bit_writes m ++ [SWrap 1 Zeroizing; SWrap 2 Zeroizing; SDrop 2; SDrop 1].
