(** * Abstract scalar field and vector space, as records of operations.
    The same Gallina definitions are (a) the subject of the theorems, under the law hypotheses
    [FldOk] / [ModOk], and (b) what [vm_compute] runs at the concrete instance of Exec/Zl.v. *)
From Coq Require Import List Arith NArith Lia Field Ring Bool.
Import ListNotations.

Record Fld := mkFld {
  F :> Type;
  f0 : F; f1 : F;
  fadd : F -> F -> F; fmul : F -> F -> F; fsub : F -> F -> F; fopp : F -> F;
  fdiv : F -> F -> F; finv : F -> F;
  feqb : F -> F -> bool }.

Record FldOk (K : Fld) : Prop := mkFldOk {
  Fth : field_theory (f0 K) (f1 K) (fadd K) (fmul K) (fsub K) (fopp K) (fdiv K) (finv K) eq;
  feqb_ok : forall a b : K, feqb K a b = true <-> a = b }.

Declare Scope F_scope.
Delimit Scope F_scope with F.
Notation "a + b" := (fadd _ a b) : F_scope.
Notation "a * b" := (fmul _ a b) : F_scope.
Notation "a - b" := (fsub _ a b) : F_scope.
Notation "- a" := (fopp _ a) : F_scope.
Notation "/ a" := (finv _ a) : F_scope.

Section FieldDefs.
Variable K : Fld.
Local Open Scope F_scope.
Notation "0" := (f0 K). Notation "1" := (f1 K).

Definition two : K := 1 + 1.

Fixpoint fofP (p : positive) : K :=
  match p with xH => 1 | xO q => two * fofP q | xI q => two * fofP q + 1 end.
(** [Scalar::from(u64)] *)
Definition fofN (n : N) : K := match n with N0 => 0 | Npos p => fofP p end.

Fixpoint fpow (y : K) (n : nat) : K := match n with O => 1 | S k => y * fpow y k end.

Definition fsum (l : list K) : K := fold_right (fadd K) 0 l.
Definition fprod (l : list K) : K := fold_right (fmul K) 1 l.

Fixpoint map2 {A B C} (f : A -> B -> C) (x : list A) (y : list B) : list C :=
  match x, y with a :: x', b :: y' => f a b :: map2 f x' y' | _, _ => [] end.

(** [powers y n] = [y^0; y^1; ...; y^(n-1)] built by a running product, as the code does *)
Fixpoint powers_from (acc y : K) (n : nat) : list K :=
  match n with O => [] | S k => acc :: powers_from (acc * y) y k end.
Definition powers (y : K) (n : nat) : list K := powers_from 1 y n.

Definition is_zero (a : K) : bool := feqb K a 0.
End FieldDefs.

Arguments map2 {A B C} f x y.

(** Vector space (the group written additively). *)
Record Mod (K : Fld) := mkMod {
  V :> Type;
  v0 : V; vadd : V -> V -> V; smul : K -> V -> V; veqb : V -> V -> bool }.
Arguments v0 {K}. Arguments vadd {K}. Arguments smul {K}. Arguments veqb {K}.

Record ModOk (K : Fld) (M : Mod K) : Prop := mkModOk {
  vaddA : forall a b c : M, vadd M a (vadd M b c) = vadd M (vadd M a b) c;
  vaddC : forall a b : M, vadd M a b = vadd M b a;
  vadd0 : forall a : M, vadd M (v0 M) a = a;
  smul_add_l : forall (a b : K) (v : M), smul M (fadd K a b) v = vadd M (smul M a v) (smul M b v);
  smul_add_r : forall (a : K) (v w : M), smul M a (vadd M v w) = vadd M (smul M a v) (smul M a w);
  smul_mul : forall (a b : K) (v : M), smul M (fmul K a b) v = smul M a (smul M b v);
  smul_1 : forall v : M, smul M (f1 K) v = v;
  smul_0 : forall v : M, smul M (f0 K) v = v0 M;
  veqb_ok : forall a b : M, veqb M a b = true <-> a = b }.

Section ModDefs.
Variable K : Fld.
Variable M : Mod K.
Fixpoint msm (s : list K) (p : list M) : M :=
  match s, p with a :: s', q :: p' => vadd M (smul M a q) (msm s' p') | _, _ => v0 M end.
Definition vsum (l : list M) : M := fold_right (vadd M) (v0 M) l.
Definition vneg (v : M) : M := smul M (fopp K (f1 K)) v.
End ModDefs.
Arguments msm {K M}. Arguments vsum {K M}. Arguments vneg {K M}.
