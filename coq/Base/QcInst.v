(** A concrete field and vector space satisfying [FldOk] / [ModOk] — the rationals of the standard
    library (Qcanon) as a field and as a one-dimensional space over themselves.  Used only for the
    non-vacuity [Example]s under the property theorems: the hypotheses of the theorems (field and
    module laws, shape and non-zero conditions) are jointly satisfiable, and the models compute. *)
From Coq Require Import QArith Qcanon Field List Lia.
From BP Require Import Base.Field.
Import ListNotations.

Definition QcF : Fld := mkFld Qc 0%Qc 1%Qc Qcplus Qcmult Qcminus Qcopp Qcdiv Qcinv Qc_eq_bool.

Lemma QcF_ok : FldOk QcF.
Proof.
  split; [exact Qcft|]. intros a b; split; [apply Qc_eq_bool_correct|].
  intros ->. cbn. unfold Qc_eq_bool. destruct (Qc_eq_dec b b); congruence.
Qed.

Definition QcM : Mod QcF := mkMod QcF Qc 0%Qc Qcplus Qcmult Qc_eq_bool.

Lemma QcM_ok : ModOk QcF QcM.
Proof.
  split; cbn; intros; try ring.
  split; [apply Qc_eq_bool_correct|]. intros ->. unfold Qc_eq_bool. destruct (Qc_eq_dec b b); congruence.
Qed.

Definition q (z : Z) : Qc := Q2Qc (inject_Z z).
