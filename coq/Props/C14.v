(** C14 - placeholder until the nonce-source theorems land. *)
From Coq Require Import List NArith.
From BP Require Import Model.Nonce.
Theorem C14_r_s_always_from_rng : forall seeded T rounds, source_of seeded T rounds SR = FromRng (1 + rounds) 0 /\ source_of seeded T rounds SS = FromRng (1 + rounds) 1.
Proof. intros; split; reflexivity. Qed.
Print Assumptions C14_r_s_always_from_rng.
