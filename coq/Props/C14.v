(** C14 — prover randomness is hedged.  STROBE KEY/PRF as a PRF of its key is TRUSTED; proved: what the
    key contains. *)
From Coq Require Import List Arith NArith Bool.
From BP Require Import Model.Codec Model.Transcript Model.Nonce Proofs.NonceP.
Import ListNotations.

(** every transcript-RNG instance the prover builds (after the statement, after A, after each (L, R),
    after (A1, B)) is re-keyed with the serialised witness, whatever the external RNG returns *)
Theorem C14_rng_always_keyed_with_witness : forall s seeded p w l,
  prover_ops s seeded p w = Some l -> Forall (rng_keyed w) l.
Proof. exact prover_rng_always_keyed. Qed.
Print Assumptions C14_rng_always_keyed_with_witness.

(** for a given shape the key bytes determine every value and every blinding factor: two witnesses
    for the same commitments still give different keys *)
Theorem C14_witness_bytes_injective : forall T (vs vs' : list N) (bs bs' : list (list N)),
  length vs = length bs -> length vs' = length bs' -> length vs = length vs' ->
  Forall (fun v => (v < 2 ^ 64)%N) vs -> Forall (fun v => (v < 2 ^ 64)%N) vs' ->
  Forall (fun r => length r = T /\ Forall (fun x => (x < 2 ^ 256)%N) r) bs ->
  Forall (fun r => length r = T /\ Forall (fun x => (x < 2 ^ 256)%N) r) bs' ->
  witness_bytes vs bs = witness_bytes vs' bs' -> vs = vs' /\ bs = bs'.
Proof. exact witness_bytes_injective. Qed.
Print Assumptions C14_witness_bytes_injective.

(** the two final masking scalars come from the RNG also when a seed is present *)
Theorem C14_final_masks_from_rng : forall seeded T rounds,
  source_of seeded T rounds SR = FromRng (1 + rounds) 0 /\ source_of seeded T rounds SS = FromRng (1 + rounds) 1.
Proof. exact final_masks_from_rng. Qed.
Print Assumptions C14_final_masks_from_rng.
