(** C16 — no panic on untrusted input.  The Gallina model is total by construction; what is proved is
    that wherever the Rust code performs a partial operation (slice index, unchecked subtraction, shift,
    back-end length assertion), the guards that precede it keep it inside its domain.  PARTIAL: the list
    of partial operations is hand-enumerated from the source; panics inside dependencies are runtime
    behaviour explored by the harness. *)
From Coq Require Import List Arith NArith Bool.
From BP Require Import Base.Field Model.Codec Model.Verifier Model.VerifyTop Proofs.CodecP Proofs.GuardsP Proofs.VerifyTopP.
Import ListNotations.
Local Close Scope N_scope.

(** the decoder is total and well-formedness of its output is guaranteed (every byte string) *)
Theorem C16_decoder_total : forall bs, from_bytes bs = None \/ exists p, from_bytes bs = Some p.
Proof. intros bs. destruct (from_bytes bs); eauto. Qed.
Print Assumptions C16_decoder_total.

(** after the guard 2^rounds = bits*m, every index of the s-vector loop is in range and neither
    [i - 2^log2 i] nor [rounds - log2 i - 1] underflows *)
Theorem C16_s_loop_indices_safe : forall rounds i, 1 <= i < 2 ^ rounds ->
  Nat.log2 i < rounds /\ 2 ^ Nat.log2 i <= i /\ i - 2 ^ Nat.log2 i < i /\ rounds - Nat.log2 i - 1 < rounds.
Proof. exact s_loop_indices_safe. Qed.
Print Assumptions C16_s_loop_indices_safe.

(** the back end's assertion "static scalars = table size" holds whenever the padding is defined *)
Theorem C16_msm_static_length : forall (K : Fld) (acc : batch_acc K) bits m cap pad,
  generator_padding (N.of_nat bits) (N.of_nat m) (N.of_nat cap) = Some pad ->
  length (a_gi acc) = m * bits -> length (a_hi acc) = m * bits -> m <= cap ->
  length (fst (final_msm K acc (N.to_nat pad))) = 2 * bits * cap.
Proof. exact static_length_matches_table. Qed.
Print Assumptions C16_msm_static_length.

(** padding never underflows silently: it is defined only without usize overflow and with m <= cap *)
Theorem C16_padding_checked : forall bits m cap pad : N,
  generator_padding bits m cap = Some pad -> ((m <= cap \/ bits = 0) /\ pad = 2 * bits * cap - 2 * bits * m /\ 2 * bits * cap < 2 ^ 64)%N.
Proof. exact generator_padding_spec. Qed.
Print Assumptions C16_padding_checked.

(** ill-formed batches are errors, not panics *)
Theorem C16_empty_and_mismatched_batches_are_errors : forall (K : Fld) ofN mode ns np nt ms orc,
  (ns = 0 \/ np = 0 \/ nt = 0) \/ (ns <> np \/ nt <> ns) -> verify_batch K ofN mode ns np nt ms orc = Err.
Proof. intros K ofN mode ns np nt ms orc [H|H]; [now apply batch_refuses_empty|now apply batch_refuses_length_mismatch]. Qed.
Print Assumptions C16_empty_and_mismatched_batches_are_errors.

(** further partial operations of [RangeProof::verify] and the guards that precede them *)
From Coq Require Import Lia.
From BP Require Import Model.Ctor Proofs.CtorP.
Local Close Scope N_scope.

(** [1 << rounds]: the round-count guard is only passed with rounds < 64, so the shift cannot overflow *)
Theorem C16_round_guard_bounds_shift : forall (K : Fld) (mb : member K),
  rounds_ok K mb = true ->
  length (p_li (mb_proof K mb)) = length (p_ri (mb_proof K mb)) /\ length (p_li (mb_proof K mb)) < 64 /\
  (2 ^ N.of_nat (length (p_li (mb_proof K mb))) = N.of_nat (mb_N K mb))%N.
Proof.
  intros K mb. unfold rounds_ok.
  destruct (Nat.eqb_spec (length (p_li (mb_proof K mb))) (length (p_ri (mb_proof K mb)))) as [E|E]; cbn [negb]; [|discriminate].
  destruct (Nat.ltb_spec (length (p_li (mb_proof K mb))) 64) as [L|L]; cbn [negb]; [|discriminate].
  intros H. apply N.eqb_eq in H. auto.
Qed.
Print Assumptions C16_round_guard_bounds_shift.

(** [d.get((j - 1) * bit_length + i)] for 1 <= j < m, i < bits: the index is inside the (j * bits) entries already pushed *)
Theorem C16_d_index_in_range : forall bits j i, 1 <= j -> i < bits -> (j - 1) * bits + i < j * bits.
Proof. intros bits j i Hj Hi. destruct j as [|j]; [lia|]. cbn [Nat.sub]. rewrite Nat.sub_0_r. cbn [Nat.mul]. lia. Qed.
Print Assumptions C16_d_index_in_range.

(** [aggregation_factor.ilog2()] (panics on 0): a statement that passed its constructor has a power-of-two,
    hence non-zero, number of commitments *)
Theorem C16_aggregation_ilog2_defined : forall cap count pcount seed st,
  statement_init cap count pcount seed = Some st -> (1 <= count)%N /\ exists a, count = (2 ^ a)%N.
Proof.
  intros cap count pcount seed st H.
  assert (E : exists x, statement_init cap count pcount seed = Some x) by eauto.
  apply statement_init_ok_iff in E. destruct E as ((a & ->) & _). split; [|eauto].
  apply N.lt_pred_le. cbn. apply N.neq_0_lt_0, N.pow_nonzero. lia.
Qed.
Print Assumptions C16_aggregation_ilog2_defined.

(** [slice::chunks(n)] panics on n = 0: the chunk size of the model is the non-zero constant 256, whatever the batch *)
Theorem C16_chunk_size_nonzero : MAX_BATCH = 256 /\ 0 < MAX_BATCH.
Proof. unfold MAX_BATCH. split; [reflexivity|lia]. Qed.
Print Assumptions C16_chunk_size_nonzero.

From BP Require Import Model.Checked Model.CheckedTop Proofs.CheckedP Proofs.CheckedTopP.

(** THE PROPERTY ON THE CHECKED MODEL.  [verify_chunk_chk] (Model/CheckedTop.v, Model/Checked.v) is RangeProof::verify
    with every partial machine operation explicit and three outcomes: value, error, PANIC.  A panic is produced by
    usize arithmetic outside the checked_* calls ((j - 1) * bit_length + i, i - j, rounds - log_i - 1, 1 << log_i),
    by ilog2 of 0, and by the back end's two length assertions on the final product; `.get(..).ok_or(..)?` exits are errors.
    For statements as the validating constructors make them ([ctor_ok]: one promise per commitment, one blinding
    generator per extension degree, one round challenge per zipped L/R pair) and ARBITRARY proofs (any number of
    rounds, any tag, any scalars), weights, modes and chunk shapes, the outcome is never a panic: it is exactly the
    verdict of the total model [verify_chunk] that the correspondence check runs against the code. *)
Theorem C16_verify_chunk_checked_is_total_model : forall (K : Fld) (ofN : N -> K) mode (ms : list (member K)) (ws : list K) z,
  Forall (ctor_ok K) ms ->
  verify_chunk_chk K ofN mode ms ws z = lift (fst (verify_chunk K ofN mode ms ws z)).
Proof. exact verify_chunk_chk_ok. Qed.
Print Assumptions C16_verify_chunk_checked_is_total_model.

(** ... and whole batches: the three shape refusals, slice::chunks (a panic for a chunk size of zero) and the chunks in order *)
Theorem C16_verify_batch_checked_is_total_model : forall (K : Fld) (ofN : N -> K) mode ns np nt (ms : list (member K)) orc,
  Forall (ctor_ok K) ms ->
  verify_batch_chk K ofN mode ns np nt ms orc = lift (verify_batch K ofN mode ns np nt ms orc).
Proof. exact verify_batch_chk_ok. Qed.
Print Assumptions C16_verify_batch_checked_is_total_model.

Theorem C16_verify_batch_never_panics : forall (K : Fld) (ofN : N -> K) mode ns np nt (ms : list (member K)) orc,
  Forall (ctor_ok K) ms -> verify_batch_chk K ofN mode ns np nt ms orc <> Panic.
Proof. exact verify_batch_never_panics. Qed.
Print Assumptions C16_verify_batch_never_panics.

Theorem C16_verify_chunk_never_panics : forall (K : Fld) (ofN : N -> K) mode (ms : list (member K)) (ws : list K) z,
  Forall (ctor_ok K) ms -> verify_chunk_chk K ofN mode ms ws z <> Panic.
Proof. exact verify_chunk_never_panics. Qed.
Print Assumptions C16_verify_chunk_never_panics.

(** the per-proof body alone: after the round-count guard (2^rounds = bits * m, rounds < 64) every index is in range,
    no subtraction underflows, no shift overflows, ilog2 is defined — no panic and no `SizeOverflow` error exit —
    and the scalars are those of the total model *)
Theorem C16_proof_body_checked : forall (K : Fld) bits m promises (pf : vproof K) (ch : chals K) (w : K),
  m = length promises -> length (c_es ch) < 64 -> (length promises * bits)%nat = 2 ^ length (c_es ch) ->
  proof_terms_chk K bits m promises pf ch w = Val (proof_terms K bits promises pf ch w).
Proof. exact proof_terms_chk_ok. Qed.
Print Assumptions C16_proof_body_checked.

(** non-vacuity, computed over the rationals: a zero-round member passes; the same member with a SURPLUS promise
    (possible only by writing the statement's public fields, never through RangeStatement::init) makes the back end's
    dynamic-length assertion fire — the checked model can panic, and [ctor_ok] is what excludes it *)
From Coq Require Import QArith Qcanon.
From BP Require Import Base.QcInst.
Definition xofN (n : N) : Qc := q (Z.of_N n).
Definition xmb (promises : list (option N)) : member QcF :=
  mkMember QcF 1 1 1 7%N [8%N] 0%N [9%N] promises false (mkProof 1%N [3%N] 10%N 11%N 12%N 4%N 5%N [] []) false
           (mkChals QcF (q 3) (q 5) [] (q 7)) (fun _ _ _ => 0%Qc).
Example C16_ex_well_formed_member_runs :
  verify_chunk_chk QcF xofN VerifyOnly [xmb [None]] [q 2] true = Val [None] /\ ctor_ok QcF (xmb [None]).
Proof. split; [vm_compute; reflexivity|repeat split]. Qed.
Example C16_ex_surplus_promise_panics : verify_chunk_chk QcF xofN VerifyOnly [xmb [None; None]] [q 2] true = Panic.
Proof. vm_compute. reflexivity. Qed.
Example C16_ex_rounds_mismatch_is_an_error :
  verify_chunk_chk QcF xofN VerifyOnly
    [mkMember QcF 1 1 1 7%N [8%N] 0%N [9%N] [None] false (mkProof 1%N [3%N] 10%N 11%N 12%N 4%N 5%N [13%N] [14%N]) false
              (mkChals QcF (q 3) (q 5) [q 11] (q 7)) (fun _ _ _ => 0%Qc)] [q 2] true = Fail.
Proof. vm_compute. reflexivity. Qed.

(** ** allocation: every vector is sized by the statement and by the lengths of the proof's own vectors *)
From BP Require Import Proofs.AllocP.
Local Open Scope nat_scope.

(** the intermediate vectors of the per-proof body: [s] and [d] have one entry per generator pair of the STATEMENT
    (whatever round count the proof carries: the loop bound is the statement's [m * bits]) *)
Theorem C16_s_and_d_sized_by_statement : forall (K : Fld) bits m (s0 z2 : K) (esq : list K),
  length (s_loop K (m * bits) s0 esq) = Nat.max 1 (m * bits) /\
  length (d_vec K bits m z2) = Nat.max 1 m * Nat.max 1 bits.
Proof. intros K bits m s0 z2 esq. split; [apply s_loop_length|apply d_vec_length]. Qed.
Print Assumptions C16_s_and_d_sized_by_statement.

(** what one proof contributes to the final product, for ARBITRARY proofs and challenges *)
Theorem C16_per_proof_scalars_sized : forall (K : Fld) bits promises (pf : vproof K) (ch : chals K) (w : K),
  let t := proof_terms K bits promises pf ch w in
  let m := length promises in
  length (t_gi t) = Nat.min (Nat.max 1 (m * bits)) (Nat.max 1 m * Nat.max 1 bits) /\
  length (t_hi t) = length (t_gi t) /\
  length (t_V t) = m /\
  length (t_Gb t) = length (v_d1 pf) /\
  length (t_L t) = length (c_es ch) /\
  length (t_R t) = length (c_es ch).
Proof. exact proof_terms_sizes. Qed.
Print Assumptions C16_per_proof_scalars_sized.

(** the final product of a chunk, whenever the verifier gets that far (arbitrary members, weights, mode):
    static scalars = 2 * (largest m * bits of the chunk) + padding, dynamic scalars = the members' own shares
    (one per commitment, three points, one per L and per R) + extension degree + 1 *)
Theorem C16_final_product_sized : forall (K : Fld) ofN mode ms ws z st dyn,
  snd (verify_chunk K ofN mode ms ws z) = Some (st, dyn) ->
  exists max_mn max_index pad first,
    consistency K ms = Some (max_mn, max_index) /\ hd_error ms = Some first /\
    (let mx := nth max_index ms first in
     generator_padding (N.of_nat (mb_bits K mx)) (N.of_nat (mb_m K mx)) (N.of_nat (mb_cap K mx)) = Some pad) /\
    length st = 2 * max_mn + N.to_nat pad /\
    length dyn = chunk_dyn K ms + mb_T K first + 1.
Proof. exact verify_chunk_sizes. Qed.
Print Assumptions C16_final_product_sized.

(** after the round-count guard a member's share is fixed by its STATEMENT alone: m + 3 + 2 log2 (m * bits) *)
Theorem C16_member_share_fixed_by_statement : forall (K : Fld) (mb : member K),
  rounds_ok K mb = true -> length (c_es (mb_ch K mb)) = length (p_li (mb_proof K mb)) ->
  length (mb_promises K mb) = length (mb_Venc K mb) ->
  member_dyn K mb = mb_m K mb + 3 + 2 * Nat.log2 (mb_N K mb).
Proof. exact member_share_fixed_by_statement. Qed.
Print Assumptions C16_member_share_fixed_by_statement.
