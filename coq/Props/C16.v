(** C16 - placeholder until the totality theorems land. *)
From Coq Require Import List NArith.
From BP Require Import Model.VerifyTop.
Theorem C16_padding_refuses_underflow : generator_padding 64 2 1 = None.
Proof. reflexivity. Qed.
Print Assumptions C16_padding_refuses_underflow.
