(** C05 — statement binding: the deterministic parts.  Rejection of an altered ABSORBED component after
    the log has changed holds with probability 1 - O(1/l) over the fresh challenges (random oracle +
    C02) and is NOT a theorem; what is proved: every alteration of an absorbed component changes the log
    (so no alteration is invisible to the challenges), identity / shape alterations are refused
    outright. *)
From Coq Require Import List Arith NArith Bool.
From BP Require Import Base.Field Model.Codec Model.Transcript Model.Verifier Model.VerifyTop Proofs.TranscriptP Proofs.VerifyTopP.
Import ListNotations.
From BP Require Import Model.Spec Model.RangeSpec Proofs.BindingP.
Local Close Scope N_scope.

Theorem C05_absorbed_component_changes_log : forall s s' p p' l,
  List.length (p_li p) = List.length (p_ri p) -> List.length (p_li p') = List.length (p_ri p') ->
  verifier_ops s p = Some l -> verifier_ops s' p' = Some l ->
  tstmt_equiv s s' /\ p_a p = p_a p' /\ p_li p = p_li p' /\ p_ri p = p_ri p' /\ p_a1 p = p_a1 p' /\ p_b p = p_b p' /\
  p_r1 p = p_r1 p' /\ p_s1 p = p_s1 p' /\ p_d1 p = p_d1 p'.
Proof. exact verifier_ops_injective. Qed.
Print Assumptions C05_absorbed_component_changes_log.

Theorem C05_identity_point_rejected : forall l, app_point l 0%N = None.
Proof. reflexivity. Qed.
Print Assumptions C05_identity_point_rejected.

(** a member that disagrees with the first one on bit length, extension degree or Pedersen generators
    makes the whole chunk an error (bit length / generator alterations inside a batch) *)
Theorem C05_disagreement_refused : forall (K : Fld) ofN mode first rest ws z,
  (exists mb, In mb rest /\ (mb_bits K mb <> mb_bits K first \/ mb_T K mb <> mb_T K first \/ mb_Henc K mb <> mb_Henc K first
                             \/ mb_Gbenc K mb <> mb_Gbenc K first)) ->
  fst (verify_chunk K ofN mode (first :: rest) ws z) = Err.
Proof. exact chunk_refuses_disagreement. Qed.
Print Assumptions C05_disagreement_refused.

(** response scalars: the proof transcript does not absorb r1, s1, d1 (C04: the challenges stay the same),
    and over linearly independent generators (a hypothesis: true by construction of the free-module group,
    the discrete-log assumption on Ristretto) an accepted proof with r1, s1 or d1 changed is REFUSED by the
    textbook equation — hence, by C02_verifier_accepts_iff, by the optimised verifier for every non-zero weight. *)
Definition independent (K : Fld) (M : Mod K) (H : M) (Gb G Hs : list M) : Prop :=
  forall cs, length cs = length (basis K M H Gb G Hs) -> msm cs (basis K M H Gb G Hs) = v0 M -> Forall (fun c => c = f0 K) cs.

Theorem C05_r1_binding : forall (K : Fld), FldOk K -> forall (M : Mod K), ModOk K M -> forall (H : M) (Gb G Hs : list M),
  independent K M H Gb G Hs ->
  forall bits Vs promises A A1 B LR (y z e : K) es,
  length G = 2 ^ length es -> length Hs = 2 ^ length es -> length LR = length es ->
  Forall (fun c => c <> f0 K) es -> e <> f0 K ->
  forall r1 s1 d1 delta, delta <> f0 K -> length d1 = length Gb ->
  accepts K M H Gb G Hs bits Vs promises A A1 B LR y z e es r1 s1 d1 ->
  ~ accepts K M H Gb G Hs bits Vs promises A A1 B LR y z e es (fadd K r1 delta) s1 d1.
Proof. intros K Kok M Mok H Gb G Hs Hi. exact (r1_binding K Kok M Mok H Gb G Hs Hi). Qed.
Print Assumptions C05_r1_binding.

Theorem C05_s1_binding : forall (K : Fld), FldOk K -> forall (M : Mod K), ModOk K M -> forall (H : M) (Gb G Hs : list M),
  independent K M H Gb G Hs ->
  forall bits Vs promises A A1 B LR (y z e : K) es,
  length G = 2 ^ length es -> length Hs = 2 ^ length es -> length LR = length es ->
  Forall (fun c => c <> f0 K) es -> e <> f0 K ->
  forall r1 s1 d1 delta, delta <> f0 K -> length d1 = length Gb ->
  accepts K M H Gb G Hs bits Vs promises A A1 B LR y z e es r1 s1 d1 ->
  ~ accepts K M H Gb G Hs bits Vs promises A A1 B LR y z e es r1 (fadd K s1 delta) d1.
Proof. intros K Kok M Mok H Gb G Hs Hi. exact (s1_binding K Kok M Mok H Gb G Hs Hi). Qed.
Print Assumptions C05_s1_binding.

Theorem C05_d1_binding : forall (K : Fld), FldOk K -> forall (M : Mod K), ModOk K M -> forall (H : M) (Gb G Hs : list M),
  independent K M H Gb G Hs ->
  forall bits Vs promises A A1 B LR (y z e : K) es,
  length G = 2 ^ length es -> length Hs = 2 ^ length es -> length LR = length es ->
  forall r1 s1 d1 d1', length d1 = length Gb -> length d1' = length Gb -> d1 <> d1' ->
  accepts K M H Gb G Hs bits Vs promises A A1 B LR y z e es r1 s1 d1 ->
  ~ accepts K M H Gb G Hs bits Vs promises A A1 B LR y z e es r1 s1 d1'.
Proof. intros K Kok M Mok H Gb G Hs Hi. exact (d1_binding K Kok M Mok H Gb G Hs Hi). Qed.
Print Assumptions C05_d1_binding.

(** The same three statements on the OPTIMISED verifier: [product] is the single multiscalar product the code-shaped
    verifier evaluates for one proof under batch weight w.  If it is the identity for (r1, s1, d1) under some non-zero
    weight, then for the altered scalar it is NOT the identity under any non-zero weight — the back end cannot find the
    identity, so the verdict is an error.  (Composition of the textbook binding lemmas with C02_verifier_accepts_iff;
    generator independence is the same hypothesis as above.) *)
From BP Require Import Proofs.BindingTopP.
Theorem C05_altered_r1_refused : forall (K : Fld), FldOk K -> forall (M : Mod K), ModOk K M -> forall (H : M) (Gb G Hs : list M),
  independent K M H Gb G Hs ->
  forall (bits a : nat) (Vs : list M) (promises : list (option N)) (A A1 B : M) (LR : list (M * M)) (y z e : K) (es : list K),
  1 <= bits -> length promises = 2 ^ a -> (length promises * bits)%nat = 2 ^ length es ->
  Forall (fun c => c <> f0 K) es -> y <> f0 K -> fsub K y (f1 K) <> f0 K -> e <> f0 K ->
  length G = (length promises * bits)%nat -> length Hs = (length promises * bits)%nat -> length Vs = length promises -> length LR = length es ->
  forall (r1 s1 : K) (d1 : list K) (delta w w' : K), w <> f0 K -> w' <> f0 K -> delta <> f0 K -> length d1 = length Gb ->
  product K M H Gb G Hs bits Vs promises A A1 B LR y z e es r1 s1 d1 w = v0 M ->
  product K M H Gb G Hs bits Vs promises A A1 B LR y z e es (fadd K r1 delta) s1 d1 w' <> v0 M.
Proof. intros K Kok M Mok H Gb G Hs Hi. exact (altered_r1_refused K Kok M Mok H Gb G Hs Hi). Qed.
Print Assumptions C05_altered_r1_refused.

Theorem C05_altered_s1_refused : forall (K : Fld), FldOk K -> forall (M : Mod K), ModOk K M -> forall (H : M) (Gb G Hs : list M),
  independent K M H Gb G Hs ->
  forall (bits a : nat) (Vs : list M) (promises : list (option N)) (A A1 B : M) (LR : list (M * M)) (y z e : K) (es : list K),
  1 <= bits -> length promises = 2 ^ a -> (length promises * bits)%nat = 2 ^ length es ->
  Forall (fun c => c <> f0 K) es -> y <> f0 K -> fsub K y (f1 K) <> f0 K -> e <> f0 K ->
  length G = (length promises * bits)%nat -> length Hs = (length promises * bits)%nat -> length Vs = length promises -> length LR = length es ->
  forall (r1 s1 : K) (d1 : list K) (delta w w' : K), w <> f0 K -> w' <> f0 K -> delta <> f0 K -> length d1 = length Gb ->
  product K M H Gb G Hs bits Vs promises A A1 B LR y z e es r1 s1 d1 w = v0 M ->
  product K M H Gb G Hs bits Vs promises A A1 B LR y z e es r1 (fadd K s1 delta) d1 w' <> v0 M.
Proof. intros K Kok M Mok H Gb G Hs Hi. exact (altered_s1_refused K Kok M Mok H Gb G Hs Hi). Qed.
Print Assumptions C05_altered_s1_refused.

Theorem C05_altered_d1_refused : forall (K : Fld), FldOk K -> forall (M : Mod K), ModOk K M -> forall (H : M) (Gb G Hs : list M),
  independent K M H Gb G Hs ->
  forall (bits a : nat) (Vs : list M) (promises : list (option N)) (A A1 B : M) (LR : list (M * M)) (y z e : K) (es : list K),
  1 <= bits -> length promises = 2 ^ a -> (length promises * bits)%nat = 2 ^ length es ->
  Forall (fun c => c <> f0 K) es -> y <> f0 K -> fsub K y (f1 K) <> f0 K ->
  length G = (length promises * bits)%nat -> length Hs = (length promises * bits)%nat -> length Vs = length promises -> length LR = length es ->
  forall (r1 s1 : K) (d1 d1' : list K) (w w' : K), w <> f0 K -> w' <> f0 K -> length d1 = length Gb -> length d1' = length Gb -> d1 <> d1' ->
  product K M H Gb G Hs bits Vs promises A A1 B LR y z e es r1 s1 d1 w = v0 M ->
  product K M H Gb G Hs bits Vs promises A A1 B LR y z e es r1 s1 d1' w' <> v0 M.
Proof. intros K Kok M Mok H Gb G Hs Hi. exact (altered_d1_refused K Kok M Mok H Gb G Hs Hi). Qed.
Print Assumptions C05_altered_d1_refused.

(** All response scalars at once: over independent generators the statement, the proof's points and the challenges
    DETERMINE the responses an accepting verifier can see — two accepted proofs that differ only in (r1, s1, d1) are the same
    proof; simultaneous compensating changes are excluded too (the three theorems above are instances). *)
From BP Require Import Proofs.UniqueP.
Theorem C05_responses_unique : forall (K : Fld), FldOk K -> forall (M : Mod K), ModOk K M -> forall (H : M) (Gb G Hs : list M),
  independent K M H Gb G Hs ->
  forall bits Vs promises A A1 B LR (y z e : K) es,
  length G = 2 ^ length es -> length Hs = 2 ^ length es -> length LR = length es ->
  Forall (fun c => c <> f0 K) es -> e <> f0 K ->
  forall r1 s1 d1 r1' s1' d1', length d1 = length Gb -> length d1' = length Gb ->
  accepts K M H Gb G Hs bits Vs promises A A1 B LR y z e es r1 s1 d1 ->
  accepts K M H Gb G Hs bits Vs promises A A1 B LR y z e es r1' s1' d1' ->
  r1' = r1 /\ s1' = s1 /\ d1' = d1.
Proof. intros K Kok M Mok H Gb G Hs Hi. exact (responses_unique K Kok M Mok H Gb G Hs Hi). Qed.
Print Assumptions C05_responses_unique.

(** ... and at the top of the executed model: if [verify_chunk] accepts a one-member chunk (back end: identity) and also
    accepts the member carrying OTHER response bytes ([with_responses]: same statement, points and challenges — the
    responses are not absorbed before the last challenge) with the back end again finding the identity, then the other
    bytes denote the same scalars.  Contrapositive: altering any response scalar of an accepted triple makes the product the
    model hands to the back end differ from the identity under every non-zero weight — the verdict is an error.  All guard
    facts are extracted from the acceptance itself; [member_wf] is the constructor invariants and the oracle's shape. *)
From BP Require Import Model.Codec Model.Prover Proofs.TopP Proofs.BatchP.
Theorem C05_accepted_responses_unique : forall (K : Fld), FldOk K -> forall (M : Mod K), ModOk K M ->
  forall (ofN : N -> K) (dec : N -> M) (H : M) (Gb G Hv : list M) mode (mb : member K) (r1' s1' : N) (d1' : list N) (w w' : K) masks sc masks' sc',
  let mb' := with_responses K mb r1' s1' d1' in
  let Nn := mb_N K mb in
  independent K M H Gb (firstn Nn G) (firstn Nn Hv) ->
  mode <> RecoverOnly -> w <> f0 K -> w' <> f0 K -> member_wf K M Gb mb -> (Nn <= length G)%nat -> (Nn <= length Hv)%nat ->
  verify_chunk K ofN mode [mb] [w] true = (Ok masks, Some sc) ->
  vadd M (msm (fst sc) (interleaveM K M G Hv)) (msm (snd sc) (dyn_of K M (pts_of K M dec mb) ++ Gb ++ [H])) = v0 M ->
  verify_chunk K ofN mode [mb'] [w'] true = (Ok masks', Some sc') ->
  vadd M (msm (fst sc') (interleaveM K M G Hv)) (msm (snd sc') (dyn_of K M (pts_of K M dec mb') ++ Gb ++ [H])) = v0 M ->
  ofN r1' = ofN (p_r1 (mb_proof K mb)) /\ ofN s1' = ofN (p_s1 (mb_proof K mb)) /\ map ofN d1' = map ofN (p_d1 (mb_proof K mb)).
Proof. exact accepted_responses_unique. Qed.
Print Assumptions C05_accepted_responses_unique.
