(** C05 - placeholder until the binding theorems land. *)
From Coq Require Import List NArith.
From BP Require Import Model.Transcript.
Theorem C05_identity_point_rejected : forall l, app_point l 0%N = None.
Proof. reflexivity. Qed.
Print Assumptions C05_identity_point_rejected.
