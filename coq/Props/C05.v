(** C05 — statement binding: the deterministic parts.  Rejection of an altered ABSORBED component after
    the log has changed holds with probability 1 - O(1/l) over the fresh challenges (random oracle +
    C02) and is NOT a theorem; what is proved: every alteration of an absorbed component changes the log
    (so no alteration is invisible to the challenges), identity / shape alterations are refused
    outright. *)
From Coq Require Import List Arith NArith Bool.
From BP Require Import Base.Field Model.Codec Model.Transcript Model.Verifier Model.VerifyTop Proofs.TranscriptP Proofs.VerifyTopP.
Import ListNotations.

Theorem C05_absorbed_component_changes_log : forall s s' p p' l,
  List.length (p_li p) = List.length (p_ri p) -> List.length (p_li p') = List.length (p_ri p') ->
  verifier_ops s p = Some l -> verifier_ops s' p' = Some l ->
  tstmt_equiv s s' /\ p_a p = p_a p' /\ p_li p = p_li p' /\ p_ri p = p_ri p' /\ p_a1 p = p_a1 p' /\ p_b p = p_b p' /\
  p_r1 p = p_r1 p' /\ p_s1 p = p_s1 p' /\ p_d1 p = p_d1 p'.
Proof. exact verifier_ops_injective. Qed.
Print Assumptions C05_absorbed_component_changes_log.

Theorem C05_identity_point_rejected : forall l, app_point l 0%N = None.
Proof. reflexivity. Qed.
Print Assumptions C05_identity_point_rejected.

(** a member that disagrees with the first one on bit length, extension degree or Pedersen generators
    makes the whole chunk an error (bit length / generator alterations inside a batch) *)
Theorem C05_disagreement_refused : forall (K : Fld) ofN mode first rest ws z,
  (exists mb, In mb rest /\ (mb_bits K mb <> mb_bits K first \/ mb_T K mb <> mb_T K first \/ mb_Henc K mb <> mb_Henc K first
                             \/ mb_Gbenc K mb <> mb_Gbenc K first)) ->
  fst (verify_chunk K ofN mode (first :: rest) ws z) = Err.
Proof. exact chunk_refuses_disagreement. Qed.
Print Assumptions C05_disagreement_refused.
