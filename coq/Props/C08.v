(** C08 - placeholder until the weighting theorems land. *)
From Coq Require Import List NArith.
Import ListNotations.
From BP Require Import Model.Transcript.
Theorem C08_verifier_rng_absorbs_all_responses : forall r1 s1 d1,
  ops_verifier_rng r1 s1 d1 = [OApp Lr1 32 r1; OApp Ls1 32 s1] ++ map (fun d => OApp Ld1 32 d) d1 ++ [ORng None; OFill 8].
Proof. reflexivity. Qed.
Print Assumptions C08_verifier_rng_absorbs_all_responses.
