(** C08 — batch weighting.  Unpredictability of the weights before the proofs are fixed is TRUSTED
    (Merlin as a random oracle); proved: what the weights are keyed with, that each multiplies every term
    of its proof, and that cancellation pins the ratio. *)
From Coq Require Import List Arith NArith Bool.
From BP Require Import Base.Field Model.Codec Model.Transcript Model.Verifier Proofs.TranscriptP Proofs.WeightP.
Import ListNotations.

(** the per-proof RNG that feeds the weight transcript absorbs r1, s1 and EVERY d1_k (after the whole
    proof transcript) *)
Theorem C08_verifier_rng_absorbs_all_responses : forall r1 s1 d1,
  ops_verifier_rng r1 s1 d1 = [OApp Lr1 32 r1; OApp Ls1 32 s1] ++ map (fun d => OApp Ld1 32 d) d1 ++ [ORng None; OFill 8].
Proof. reflexivity. Qed.
Print Assumptions C08_verifier_rng_absorbs_all_responses.

(** ... injectively: equal logs force equal responses *)
Theorem C08_responses_determined_by_log : forall s s' p p' l,
  List.length (p_li p) = List.length (p_ri p) -> List.length (p_li p') = List.length (p_ri p') ->
  verifier_ops s p = Some l -> verifier_ops s' p' = Some l -> p_r1 p = p_r1 p' /\ p_s1 p = p_s1 p' /\ p_d1 p = p_d1 p'.
Proof. intros s s' p p' l H1 H2 E1 E2. destruct (verifier_ops_injective s s' p p' l H1 H2 E1 E2) as (_ & _ & _ & _ & _ & _ & A & B & C). auto. Qed.
Print Assumptions C08_responses_determined_by_log.

(** all per-proof values are absorbed before the single RNG from which every weight is drawn *)
Theorem C08_weights_after_all_proofs : forall u64s draws,
  weight_ops u64s draws = [OApp LDomSep 30 WEIGHT_LABEL_VALUE] ++ map (fun u => OApp LProof 8 u) u64s ++ [ORng None] ++ repeat (OFill 64) draws.
Proof. reflexivity. Qed.
Print Assumptions C08_weights_after_all_proofs.

(** the weight multiplies every term contributed by its proof *)
Theorem C08_weight_multiplies_every_term : forall (K : Fld), FldOk K -> forall bits promises pf ch w,
  proof_terms K bits promises pf ch w = scale_terms K w (proof_terms K bits promises pf ch (f1 K)).
Proof. exact proof_terms_linear_in_weight. Qed.
Print Assumptions C08_weight_multiplies_every_term.

(** two non-zero residuals cancel for exactly one ratio of the two weights *)
Theorem C08_cancellation_fixes_ratio : forall (K : Fld), FldOk K -> forall (M : Mod K), ModOk K M ->
  forall (w1 w2 w1' w2' : K) (R1 R2 : M), R1 <> v0 M -> w2 <> f0 K -> w2' <> f0 K ->
  vadd M (smul M w1 R1) (smul M w2 R2) = v0 M -> vadd M (smul M w1' R1) (smul M w2' R2) = v0 M ->
  fmul K w1 (finv K w2) = fmul K w1' (finv K w2').
Proof. exact cancellation_fixes_ratio. Qed.
Print Assumptions C08_cancellation_fixes_ratio.

Theorem C08_bad_weight_unique : forall (K : Fld), FldOk K -> forall (M : Mod K), ModOk K M ->
  forall (w w' : K) (R rest : M), R <> v0 M -> vadd M (smul M w R) rest = v0 M -> vadd M (smul M w' R) rest = v0 M -> w = w'.
Proof. exact bad_weight_unique. Qed.
Print Assumptions C08_bad_weight_unique.

(** the batch weights are drawn by the reject-zero loop: every weight is non-zero, and they are the first n
    non-zero outputs of the weight RNG in order (so weight p belongs to proof p) *)
From BP Require Import Base.Field Model.RejectZero Proofs.RejectZeroP.
Theorem C08_weights_nonzero : forall (K : Fld), FldOk K -> forall (draws : list K) n, Forall (fun d => d <> f0 K) (take_nonzero K n draws).
Proof. exact take_nonzero_nonzero. Qed.
Print Assumptions C08_weights_nonzero.
Theorem C08_weights_are_first_nonzero_draws : forall (K : Fld) (draws : list K) n,
  take_nonzero K n draws = firstn n (filter (fun d => negb (is_zero K d)) draws).
Proof. exact take_nonzero_spec. Qed.
Print Assumptions C08_weights_are_first_nonzero_draws.

(** The algebra of the cancellation attack the checks mount (tools/props/c08.py, c03.py): shifting the response d1[k] of a member by delta moves
    its textbook residual by delta * Gb_k and nothing else; so with factors w_i, w_j that did NOT change with the responses, the shifts
    (w_j t, - w_i t) leave the weighted sum of the two residuals — the batch's final product — where it was, and two individually invalid proofs
    pass together.  That the factors are drawn after every response has been absorbed (C08_verifier_rng_absorbs_all_responses) is therefore
    necessary. *)
From BP Require Import Model.Verifier Proofs.BatchEquivP Proofs.CancelP.
Theorem C08_shifted_response_moves_residual_along_Gb : forall (K : Fld), FldOk K -> forall (M : Mod K), ModOk K M ->
  forall (H : M) (Gb G Hv : list M) (b : bmember K M) k delta,
  (k < length (v_d1 (b_pf K M b)))%nat -> length (v_d1 (b_pf K M b)) = length Gb ->
  b_residual K M H Gb G Hv (shift_d1 K M b k delta) = vadd M (b_residual K M H Gb G Hv b) (smul M delta (nth k Gb (v0 M))).
Proof. exact residual_of_shifted_response. Qed.
Print Assumptions C08_shifted_response_moves_residual_along_Gb.

Theorem C08_cancelling_shifts_leave_the_weighted_sum : forall (K : Fld), FldOk K -> forall (M : Mod K), ModOk K M ->
  forall (H : M) (Gb G Hv : list M) (bi bj : bmember K M) k t,
  (k < length (v_d1 (b_pf K M bi)))%nat -> length (v_d1 (b_pf K M bi)) = length Gb ->
  (k < length (v_d1 (b_pf K M bj)))%nat -> length (v_d1 (b_pf K M bj)) = length Gb ->
  let wi := b_w K M bi in let wj := b_w K M bj in
  vadd M (smul M wi (b_residual K M H Gb G Hv (shift_d1 K M bi k (fmul K wj t))))
         (smul M wj (b_residual K M H Gb G Hv (shift_d1 K M bj k (fopp K (fmul K wi t)))))
  = vadd M (smul M wi (b_residual K M H Gb G Hv bi)) (smul M wj (b_residual K M H Gb G Hv bj)).
Proof. exact cancelling_shifts_leave_the_weighted_sum. Qed.
Print Assumptions C08_cancelling_shifts_leave_the_weighted_sum.

(** any number of members and ANY factors (those of the altered batch included): shifts [c_i * t] of d1[k] move the weighted sum of residuals by
    [(sum_i w_i c_i) * t] along Gb_k — so factors that keep an integer relation [sum_i w_i c_i = 0] whatever the responses are (a progression
    [a + i b]: [w_0 - 2 w_1 + w_2 = 0]) let individually invalid proofs pass together although every factor changed with the responses.  The check
    looks for such relations on the observed factors by exact lattice reduction and mounts exactly this attack. *)
Theorem C08_shifts_along_a_relation : forall (K : Fld), FldOk K -> forall (M : Mod K), ModOk K M ->
  forall (H : M) (Gb G Hv : list M) k t (l : list (K * K * bmember K M)),
  Forall (fun x => (k < length (v_d1 (b_pf K M (snd x))))%nat /\ length (v_d1 (b_pf K M (snd x))) = length Gb) l ->
  wres_shifted K M H Gb G Hv k t l = vadd M (wres K M H Gb G Hv l) (smul M (fmul K (relation K M l) t) (nth k Gb (v0 M))).
Proof. exact shifts_along_a_relation. Qed.
Print Assumptions C08_shifts_along_a_relation.

Theorem C08_shifts_along_a_vanishing_relation : forall (K : Fld), FldOk K -> forall (M : Mod K), ModOk K M ->
  forall (H : M) (Gb G Hv : list M) k t (l : list (K * K * bmember K M)),
  Forall (fun x => (k < length (v_d1 (b_pf K M (snd x))))%nat /\ length (v_d1 (b_pf K M (snd x))) = length Gb) l ->
  relation K M l = f0 K -> wres_shifted K M H Gb G Hv k t l = wres K M H Gb G Hv l.
Proof. exact shifts_along_a_vanishing_relation. Qed.
Print Assumptions C08_shifts_along_a_vanishing_relation.
