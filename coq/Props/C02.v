(** C02 — the verifier enforces exactly the Bulletproofs+ relation.
    Proved so far: the index recurrence of the s-vector is the folding form; every scalar a proof
    contributes is linear in its weight; the static scalars fill the table.  The equality of the
    code-shaped scalar computation with the textbook residual ([verifier_equiv], statement in DESIGN.md
    section 5/C02) is not yet proved: it is compared scalar by scalar with the implementation on every
    run.  Knowledge soundness (paper Theorems 3-4) is TRUSTED. *)
From Coq Require Import List Arith NArith Bool.
From BP Require Import Base.Field Model.Verifier Model.VerifyTop Proofs.SvecP Proofs.WeightP Proofs.GuardsP.
Import ListNotations.

(** when 2^rounds = bits*m (a guard of the code), the loop s[i] = s[i - 2^log2 i] * e^2_{rounds-1-log2 i}
    builds s(e::es) = s(es) ++ map (. * e^2) s(es), i.e. s_i = s_0 * prod_{j : bit j of i set} e_j^2 *)
Theorem C02_s_vector_closed_form : forall (K : Fld) full_length s0 esq,
  full_length = 2 ^ length esq -> s_loop K full_length s0 esq = s_rec K s0 esq.
Proof. exact s_loop_eq_s_rec. Qed.
Print Assumptions C02_s_vector_closed_form.

Theorem C02_s_vector_length : forall (K : Fld) s0 esq, length (s_rec K s0 esq) = 2 ^ length esq.
Proof. exact s_rec_length. Qed.
Print Assumptions C02_s_vector_length.

(** no term of a proof escapes its weight *)
Theorem C02_terms_linear_in_weight : forall (K : Fld), FldOk K -> forall bits promises pf ch w,
  proof_terms K bits promises pf ch w = scale_terms K w (proof_terms K bits promises pf ch (f1 K)).
Proof. exact proof_terms_linear_in_weight. Qed.
Print Assumptions C02_terms_linear_in_weight.

(** the static scalars cover the owner's table exactly: 2*bits*m scalars then 2*bits*(cap-m) zeros *)
Theorem C02_static_scalars_fill_table : forall (K : Fld) (acc : batch_acc K) bits m cap pad,
  generator_padding (N.of_nat bits) (N.of_nat m) (N.of_nat cap) = Some pad ->
  length (a_gi acc) = m * bits -> length (a_hi acc) = m * bits -> m <= cap ->
  length (fst (final_msm K acc (N.to_nat pad))) = 2 * bits * cap.
Proof. exact static_length_matches_table. Qed.
Print Assumptions C02_static_scalars_fill_table.
