(** C02 - placeholder until the equivalence theorems land (see Proofs/). *)
From Coq Require Import List.
From BP Require Import Base.Field Model.Verifier.
Theorem C02_acc_init_lengths : forall (K : Fld) n T, length (a_gi (acc_init K n T)) = n /\ length (a_hi (acc_init K n T)) = n.
Proof. intros. unfold acc_init; cbn. now rewrite !repeat_length. Qed.
Print Assumptions C02_acc_init_lengths.
