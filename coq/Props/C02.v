(** C02 — the verifier enforces exactly the Bulletproofs+ relation.
    Proved so far: the index recurrence of the s-vector is the folding form; every scalar a proof
    contributes is linear in its weight; the static scalars fill the table; and — the property itself —
    [C02_verifier_equiv]: for ARBITRARY proof elements the multiscalar product the optimised verifier
    evaluates equals weight * (textbook right-hand side - textbook left-hand side) of Model/RangeSpec.v,
    hence ([C02_verifier_accepts_iff]) it vanishes exactly when the textbook Bulletproofs+ verifier
    accepts.  Knowledge soundness of the textbook protocol (paper Theorems 3-4) is TRUSTED. *)
From Coq Require Import List Arith NArith Bool.
From BP Require Import Base.Field Model.Verifier Model.VerifyTop Model.Spec Model.RangeSpec Proofs.SvecP Proofs.WeightP Proofs.GuardsP
     Proofs.ClosedP Proofs.FoldP Proofs.VerifierEquivP Proofs.BitsP Proofs.RelationP.
Import ListNotations.

(** when 2^rounds = bits*m (a guard of the code), the loop s[i] = s[i - 2^log2 i] * e^2_{rounds-1-log2 i}
    builds s(e::es) = s(es) ++ map (. * e^2) s(es), i.e. s_i = s_0 * prod_{j : bit j of i set} e_j^2 *)
Theorem C02_s_vector_closed_form : forall (K : Fld) full_length s0 esq,
  full_length = 2 ^ length esq -> s_loop K full_length s0 esq = s_rec K s0 esq.
Proof. exact s_loop_eq_s_rec. Qed.
Print Assumptions C02_s_vector_closed_form.

Theorem C02_s_vector_length : forall (K : Fld) s0 esq, length (s_rec K s0 esq) = 2 ^ length esq.
Proof. exact s_rec_length. Qed.
Print Assumptions C02_s_vector_length.

(** no term of a proof escapes its weight *)
Theorem C02_terms_linear_in_weight : forall (K : Fld), FldOk K -> forall bits promises pf ch w,
  proof_terms K bits promises pf ch w = scale_terms K w (proof_terms K bits promises pf ch (f1 K)).
Proof. exact proof_terms_linear_in_weight. Qed.
Print Assumptions C02_terms_linear_in_weight.

(** the static scalars cover the owner's table exactly: 2*bits*m scalars then 2*bits*(cap-m) zeros *)
Theorem C02_static_scalars_fill_table : forall (K : Fld) (acc : batch_acc K) bits m cap pad,
  generator_padding (N.of_nat bits) (N.of_nat m) (N.of_nat cap) = Some pad ->
  length (a_gi acc) = m * bits -> length (a_hi acc) = m * bits -> m <= cap ->
  length (fst (final_msm K acc (N.to_nat pad))) = 2 * bits * cap.
Proof. exact static_length_matches_table. Qed.
Print Assumptions C02_static_scalars_fill_table.

(** THE PROPERTY: optimised verifier = textbook verifier, for arbitrary (also dishonest) proofs.
    Hypotheses are exactly the guards of the code: bits >= 1 and m a power of two (constructors),
    m*bits = 2^rounds (round-count check), non-zero round challenges and y (transcript), plus y <> 1
    (forced by the closed-form geometric sum; unreachable without a hash pre-image, see DESIGN). *)
Theorem C02_verifier_equiv : forall (K : Fld), FldOk K -> forall (M : Mod K), ModOk K M ->
  forall bits a (promises : list (option N)) (H : M) (Gb G Hs Vs : list M) (A A1 B : M) (LR : list (M * M))
         (r1 s1 : K) (d1 : list K) (y z e w : K) (es : list K),
  1 <= bits -> length promises = 2 ^ a -> length promises * bits = 2 ^ length es ->
  Forall (fun c => c <> f0 K) es -> y <> f0 K -> fsub K y (f1 K) <> f0 K ->
  length G = length promises * bits -> length Hs = length promises * bits ->
  length Vs = length promises -> length LR = length es ->
  terms_msm K M (proof_terms K bits promises (mkVproof K d1 r1 s1) (mkChals K y z es e) w)
            G Hs Vs H Gb A1 B A (map fst LR) (map snd LR)
  = smul M w (spec_residual K M bits H Gb G Hs Vs promises (mkRproof K M A LR A1 B r1 s1 d1) y z es e).
Proof. exact verifier_equiv. Qed.
Print Assumptions C02_verifier_equiv.

Theorem C02_verifier_accepts_iff : forall (K : Fld), FldOk K -> forall (M : Mod K), ModOk K M ->
  forall bits a (promises : list (option N)) (H : M) (Gb G Hs Vs : list M) (A A1 B : M) (LR : list (M * M))
         (r1 s1 : K) (d1 : list K) (y z e w : K) (es : list K),
  1 <= bits -> length promises = 2 ^ a -> length promises * bits = 2 ^ length es ->
  Forall (fun c => c <> f0 K) es -> y <> f0 K -> fsub K y (f1 K) <> f0 K -> w <> f0 K ->
  length G = length promises * bits -> length Hs = length promises * bits ->
  length Vs = length promises -> length LR = length es ->
  (terms_msm K M (proof_terms K bits promises (mkVproof K d1 r1 s1) (mkChals K y z es e) w)
            G Hs Vs H Gb A1 B A (map fst LR) (map snd LR) = v0 M
   <-> spec_accepts K M bits H Gb G Hs Vs promises (mkRproof K M A LR A1 B r1 s1 d1) y z es e).
Proof. exact verifier_accepts_iff. Qed.
Print Assumptions C02_verifier_accepts_iff.

(** the closed forms behind it, each for every size *)
Theorem C02_d_vector_textbook : forall (K : Fld), FldOk K -> forall bits m (z : K), 1 <= bits -> 1 <= m ->
  d_vec K bits m (fmul K z z) = d_naive K bits m z.
Proof. exact d_vec_naive. Qed.
Print Assumptions C02_d_vector_textbook.
Theorem C02_d_sum_textbook : forall (K : Fld), FldOk K -> forall bits a (z : K),
  d_sum K bits (2 ^ a) (fmul K z z) = fsum K (d_naive K bits (2 ^ a) z).
Proof. exact d_sum_naive. Qed.
Print Assumptions C02_d_sum_textbook.
Theorem C02_y_sum_textbook : forall (K : Fld), FldOk K -> forall (y : K) n, fsub K y (f1 K) <> f0 K ->
  fmul K (fmul K y (fsub K (fpow K y n) (f1 K))) (finv K (fsub K y (f1 K))) = ysum_naive K y n.
Proof. exact y_sum_naive. Qed.
Print Assumptions C02_y_sum_textbook.
Theorem C02_folded_generators : forall (K : Fld), FldOk K -> forall (M : Mod K), ModOk K M -> forall (y : K) es (G Hs : list M),
  y <> f0 K -> Forall (fun e => e <> f0 K) es -> length G = 2 ^ length es -> length Hs = 2 ^ length es ->
  let s := s_rec K (fprod K (map (finv K) es)) (map (fun e => fmul K e e) es) in
  fold_Gs K M y es G = [msm (map2 (fmul K) (powers K (finv K y) (2 ^ length es)) s) G] /\
  fold_Hs K M es Hs = [msm (rev s) Hs].
Proof.
  intros K Kok M Mok y es G Hs Hy Hnz LG LH. split.
  - rewrite (fold_Gs_msm K Kok M Mok) by exact LG. now rewrite (gcoef_s_vector K Kok y Hy es Hnz).
  - rewrite (fold_Hs_msm K Kok M Mok) by exact LH. now rewrite (hcoef_s_vector K Kok es Hnz).
Qed.
Print Assumptions C02_folded_generators.

(** the relation the protocol enforces on the committed vector gives the range statement over the
    integers (n <= 64): booleans a_i with sum a_i 2^i = v - p imply v - p < 2^bits, given that
    Scalar::from is injective on u64 (true of the Ristretto scalar field, l > 2^64; a hypothesis because
    the abstract field does not expose its characteristic) *)
Theorem C02_relation_implies_range : forall (K : Fld), FldOk K ->
  (forall a b : N, (a < 2 ^ 64)%N -> (b < 2 ^ 64)%N -> fofN K a = fofN K b -> a = b) ->
  forall (bits : nat) (aL : list K) (v p : N),
  bits <= 64 -> length aL = bits -> Forall (fun c => fmul K c (fsub K c (f1 K)) = f0 K) aL ->
  (v < 2 ^ 64)%N -> (p <= v)%N ->
  dot K aL (map (fun i => fpow K (two K) i) (seq 0 bits)) = fsub K (fofN K v) (fofN K p) ->
  (v - p < 2 ^ N.of_nat bits)%N.
Proof. exact relation_implies_promise_bound. Qed.
Print Assumptions C02_relation_implies_range.
