(** C02 — the verifier enforces exactly the Bulletproofs+ relation.
    Proved so far: the index recurrence of the s-vector is the folding form; every scalar a proof
    contributes is linear in its weight; the static scalars fill the table; and — the property itself —
    [C02_verifier_equiv]: for ARBITRARY proof elements the multiscalar product the optimised verifier
    evaluates equals weight * (textbook right-hand side - textbook left-hand side) of Model/RangeSpec.v,
    hence ([C02_verifier_accepts_iff]) it vanishes exactly when the textbook Bulletproofs+ verifier
    accepts.  Knowledge soundness of the textbook protocol (paper Theorems 3-4) is TRUSTED. *)
From Coq Require Import List Arith NArith Bool.
From BP Require Import Base.Field Model.Verifier Model.VerifyTop Model.Spec Model.RangeSpec Proofs.SvecP Proofs.WeightP Proofs.GuardsP
     Proofs.ClosedP Proofs.FoldP Proofs.VerifierEquivP Proofs.BitsP Proofs.RelationP.
Import ListNotations.

(** when 2^rounds = bits*m (a guard of the code), the loop s[i] = s[i - 2^log2 i] * e^2_{rounds-1-log2 i}
    builds s(e::es) = s(es) ++ map (. * e^2) s(es), i.e. s_i = s_0 * prod_{j : bit j of i set} e_j^2 *)
Theorem C02_s_vector_closed_form : forall (K : Fld) full_length s0 esq,
  full_length = 2 ^ length esq -> s_loop K full_length s0 esq = s_rec K s0 esq.
Proof. exact s_loop_eq_s_rec. Qed.
Print Assumptions C02_s_vector_closed_form.

Theorem C02_s_vector_length : forall (K : Fld) s0 esq, length (s_rec K s0 esq) = 2 ^ length esq.
Proof. exact s_rec_length. Qed.
Print Assumptions C02_s_vector_length.

(** no term of a proof escapes its weight *)
Theorem C02_terms_linear_in_weight : forall (K : Fld), FldOk K -> forall bits promises pf ch w,
  proof_terms K bits promises pf ch w = scale_terms K w (proof_terms K bits promises pf ch (f1 K)).
Proof. exact proof_terms_linear_in_weight. Qed.
Print Assumptions C02_terms_linear_in_weight.

(** the static scalars cover the owner's table exactly: 2*bits*m scalars then 2*bits*(cap-m) zeros *)
Theorem C02_static_scalars_fill_table : forall (K : Fld) (acc : batch_acc K) bits m cap pad,
  generator_padding (N.of_nat bits) (N.of_nat m) (N.of_nat cap) = Some pad ->
  length (a_gi acc) = m * bits -> length (a_hi acc) = m * bits -> m <= cap ->
  length (fst (final_msm K acc (N.to_nat pad))) = 2 * bits * cap.
Proof. exact static_length_matches_table. Qed.
Print Assumptions C02_static_scalars_fill_table.

(** THE PROPERTY: optimised verifier = textbook verifier, for arbitrary (also dishonest) proofs.
    Hypotheses are exactly the guards of the code: bits >= 1 and m a power of two (constructors),
    m*bits = 2^rounds (round-count check), non-zero round challenges and y (transcript), plus y <> 1
    (forced by the closed-form geometric sum; unreachable without a hash pre-image, see DESIGN). *)
Theorem C02_verifier_equiv : forall (K : Fld), FldOk K -> forall (M : Mod K), ModOk K M ->
  forall bits a (promises : list (option N)) (H : M) (Gb G Hs Vs : list M) (A A1 B : M) (LR : list (M * M))
         (r1 s1 : K) (d1 : list K) (y z e w : K) (es : list K),
  1 <= bits -> length promises = 2 ^ a -> length promises * bits = 2 ^ length es ->
  Forall (fun c => c <> f0 K) es -> y <> f0 K -> fsub K y (f1 K) <> f0 K ->
  length G = length promises * bits -> length Hs = length promises * bits ->
  length Vs = length promises -> length LR = length es ->
  terms_msm K M (proof_terms K bits promises (mkVproof K d1 r1 s1) (mkChals K y z es e) w)
            G Hs Vs H Gb A1 B A (map fst LR) (map snd LR)
  = smul M w (spec_residual K M bits H Gb G Hs Vs promises (mkRproof K M A LR A1 B r1 s1 d1) y z es e).
Proof. exact verifier_equiv. Qed.
Print Assumptions C02_verifier_equiv.

Theorem C02_verifier_accepts_iff : forall (K : Fld), FldOk K -> forall (M : Mod K), ModOk K M ->
  forall bits a (promises : list (option N)) (H : M) (Gb G Hs Vs : list M) (A A1 B : M) (LR : list (M * M))
         (r1 s1 : K) (d1 : list K) (y z e w : K) (es : list K),
  1 <= bits -> length promises = 2 ^ a -> length promises * bits = 2 ^ length es ->
  Forall (fun c => c <> f0 K) es -> y <> f0 K -> fsub K y (f1 K) <> f0 K -> w <> f0 K ->
  length G = length promises * bits -> length Hs = length promises * bits ->
  length Vs = length promises -> length LR = length es ->
  (terms_msm K M (proof_terms K bits promises (mkVproof K d1 r1 s1) (mkChals K y z es e) w)
            G Hs Vs H Gb A1 B A (map fst LR) (map snd LR) = v0 M
   <-> spec_accepts K M bits H Gb G Hs Vs promises (mkRproof K M A LR A1 B r1 s1 d1) y z es e).
Proof. exact verifier_accepts_iff. Qed.
Print Assumptions C02_verifier_accepts_iff.

(** the closed forms behind it, each for every size *)
Theorem C02_d_vector_textbook : forall (K : Fld), FldOk K -> forall bits m (z : K), 1 <= bits -> 1 <= m ->
  d_vec K bits m (fmul K z z) = d_naive K bits m z.
Proof. exact d_vec_naive. Qed.
Print Assumptions C02_d_vector_textbook.
Theorem C02_d_sum_textbook : forall (K : Fld), FldOk K -> forall bits a (z : K),
  d_sum K bits (2 ^ a) (fmul K z z) = fsum K (d_naive K bits (2 ^ a) z).
Proof. exact d_sum_naive. Qed.
Print Assumptions C02_d_sum_textbook.
Theorem C02_y_sum_textbook : forall (K : Fld), FldOk K -> forall (y : K) n, fsub K y (f1 K) <> f0 K ->
  fmul K (fmul K y (fsub K (fpow K y n) (f1 K))) (finv K (fsub K y (f1 K))) = ysum_naive K y n.
Proof. exact y_sum_naive. Qed.
Print Assumptions C02_y_sum_textbook.
Theorem C02_folded_generators : forall (K : Fld), FldOk K -> forall (M : Mod K), ModOk K M -> forall (y : K) es (G Hs : list M),
  y <> f0 K -> Forall (fun e => e <> f0 K) es -> length G = 2 ^ length es -> length Hs = 2 ^ length es ->
  let s := s_rec K (fprod K (map (finv K) es)) (map (fun e => fmul K e e) es) in
  fold_Gs K M y es G = [msm (map2 (fmul K) (powers K (finv K y) (2 ^ length es)) s) G] /\
  fold_Hs K M es Hs = [msm (rev s) Hs].
Proof.
  intros K Kok M Mok y es G Hs Hy Hnz LG LH. split.
  - rewrite (fold_Gs_msm K Kok M Mok) by exact LG. now rewrite (gcoef_s_vector K Kok y Hy es Hnz).
  - rewrite (fold_Hs_msm K Kok M Mok) by exact LH. now rewrite (hcoef_s_vector K Kok es Hnz).
Qed.
Print Assumptions C02_folded_generators.

(** the relation the protocol enforces on the committed vector gives the range statement over the
    integers (n <= 64): booleans a_i with sum a_i 2^i = v - p imply v - p < 2^bits, given that
    Scalar::from is injective on u64 (true of the Ristretto scalar field, l > 2^64; a hypothesis because
    the abstract field does not expose its characteristic) *)
Theorem C02_relation_implies_range : forall (K : Fld), FldOk K ->
  (forall a b : N, (a < 2 ^ 64)%N -> (b < 2 ^ 64)%N -> fofN K a = fofN K b -> a = b) ->
  forall (bits : nat) (aL : list K) (v p : N),
  bits <= 64 -> length aL = bits -> Forall (fun c => fmul K c (fsub K c (f1 K)) = f0 K) aL ->
  (v < 2 ^ 64)%N -> (p <= v)%N ->
  dot K aL (map (fun i => fpow K (two K) i) (seq 0 bits)) = fsub K (fofN K v) (fofN K p) ->
  (v - p < 2 ^ N.of_nat bits)%N.
Proof. exact relation_implies_promise_bound. Qed.
Print Assumptions C02_relation_implies_range.

(** At the top of the executed model, for a single proof: when [verify_chunk] accepts a one-member chunk in a
    verifying mode under a NON-ZERO weight (C08_weights_nonzero) and the back end finds the final product to be the
    identity, the TEXTBOOK Bulletproofs+ verifier [spec_accepts] accepts the decoded statement / proof pair with the
    generators cut to bits*m: every guard, the optimised scalar assembly and the single multiscalar product together
    decide the relation of the paper, no more and no less (the converse is C01_honest_chunk_accepted + C02_verifier_accepts_iff). *)
From BP Require Import Model.Codec Proofs.TopP Proofs.SoundTopP Model.Prover.
Theorem C02_accepted_single_means_textbook_accepts : forall (K : Fld), FldOk K -> forall (M : Mod K), ModOk K M ->
  forall (ofN : N -> F K) (dec : N -> V K M) (H : V K M) (Gb G Hv : list (V K M))
    (mode : vmode) (mb : member K) (w : F K) (masks : list (option (list (F K)))) (sc : list (F K) * list (F K)),
  mode <> RecoverOnly -> w <> f0 K -> member_wf K M Gb mb ->
  verify_chunk K ofN mode [mb] [w] true = (Ok masks, Some sc) ->
  (mb_N K mb <= length G)%nat -> (mb_N K mb <= length Hv)%nat ->
  vadd M (msm (fst sc) (interleaveM K M G Hv)) (msm (snd sc) (BatchP.dyn_of K M (pts_of K M dec mb) ++ Gb ++ [H])) = v0 M ->
  let pr := mb_proof K mb in
  let Nn := (length (mb_promises K mb) * mb_bits K mb)%nat in
  spec_accepts K M (mb_bits K mb) H Gb (firstn Nn G) (firstn Nn Hv) (map dec (mb_Venc K mb)) (mb_promises K mb)
    (mkRproof K M (dec (p_a pr)) (combine (map dec (p_li pr)) (map dec (p_ri pr))) (dec (p_a1 pr)) (dec (p_b pr))
              (ofN (p_r1 pr)) (ofN (p_s1 pr)) (map ofN (p_d1 pr)))
    (c_y (mb_ch K mb)) (c_z (mb_ch K mb)) (c_es (mb_ch K mb)) (c_e (mb_ch K mb)).
Proof. exact accepted_single_means_textbook_accepts. Qed.
Print Assumptions C02_accepted_single_means_textbook_accepts.

(** The two sides of [C02_verifier_equiv] computed on a concrete DISHONEST proof (rationals; 2 bits x 2
    commitments with a promise, 2 rounds, T = 2, every element arbitrary): they agree and are non-zero —
    the definitions compute, and the equivalence is exercised off the honest-proof manifold. *)
From Coq Require Import QArith Qcanon.
From BP Require Import Base.QcInst.
Local Open Scope nat_scope.
Definition jH : Qc := q 2. Definition jGb := [q 3; q 5]. Definition jG := [q 7; q 11; q 13; q 17]. Definition jHs := [q 19; q 23; q 29; q 31].
Definition jVs := [q 37; q 41]. Definition jprom : list (option N) := [Some 2%N; None].
Definition jLR := [(q 43, q 47); (q 53, q 59)].
Definition jlhs (w : Qc) := terms_msm QcF QcM (proof_terms QcF 2 jprom (mkVproof QcF [q 61; q 67] (q 71) (q 73)) (mkChals QcF (q 3) (q 5) [q 7; q 2] (q 11)) w)
   jG jHs jVs jH jGb (q 79) (q 83) (q 89) (map fst jLR) (map snd jLR).
Definition jrhs (w : Qc) := Qcmult w (spec_residual QcF QcM 2 jH jGb jG jHs jVs jprom (mkRproof QcF QcM (q 89) jLR (q 79) (q 83) (q 71) (q 73) [q 61; q 67]) (q 3) (q 5) [q 7; q 2] (q 11)).
Example C02_ex_equiv_on_dishonest_proof : Qc_eq_bool (jlhs (q 9)) (jrhs (q 9)) = true /\ Qc_eq_bool (jlhs (q 9)) 0%Qc = false.
Proof. split; vm_compute; reflexivity. Qed.
Example C02_ex_premises_hold : jlhs (q 9) = jrhs (q 9).
Proof.
  apply (C02_verifier_equiv QcF QcF_ok QcM QcM_ok 2 1 jprom jH jGb jG jHs jVs (q 89) (q 79) (q 83) jLR (q 71) (q 73) [q 61; q 67] (q 3) (q 5) (q 11) (q 9) [q 7; q 2]);
    try reflexivity; try (cbn; Lia.lia); try (cbn; discriminate); repeat constructor; cbn; discriminate.
Qed.

(** the premise the harness tests on every statement (tools/lib/sessions.py): the generators are pairwise distinct points.  It is necessary: over
    two equal generators G_j = H_j the commitment A binds only the sum of the two coefficients, so a digit can be moved between a_L and a_R after
    the challenges are known *)
From BP Require Import Proofs.CancelP.
Theorem C02_equal_generators_are_not_binding : forall (K : Fld), FldOk K -> forall (M : Mod K), ModOk K M ->
  forall (aL aR : list K) (Gs Hs : list M) j delta,
  (j < length aL)%nat -> length aL = length Gs -> (j < length aR)%nat -> length aR = length Hs ->
  nth j Gs (v0 M) = nth j Hs (v0 M) ->
  vadd M (msm (add_at K j delta aL) Gs) (msm (add_at K j (fopp K delta) aR) Hs) = vadd M (msm aL Gs) (msm aR Hs).
Proof. exact equal_generators_not_binding. Qed.
Print Assumptions C02_equal_generators_are_not_binding.
