(** C19 — wire compatibility: the wire constants are literals of the model, with their layout theorems;
    the recorded vectors and the model-vs-implementation correspondence are the executable part. *)
From Coq Require Import List Arith NArith Bool String.
From Coq Require Import Uint63.
From BP Require Import Model.Codec Model.Transcript Model.Verifier Model.Nonce Model.Gens Proofs.CodecP Proofs.NonceP Proofs.TranscriptP.
From BP Require Import Crypto.Strobe Proofs.StrobeP Exec.Limbs Exec.MerlinExec.
Import ListNotations.

Theorem C19_transcript_labels :
  map label_string [LDomSep; LH; LG; LN; LT; LM; LCi; LProm; LA; Ly; Lz; LL; LR; Le; LA1; LB; Lr1; Ls1; Ld1; LProof]
  = ["dom-sep"; "H"; "G"; "N"; "T"; "M"; "Ci"; "vi - minimum_value"; "A"; "y"; "z"; "L"; "R"; "e"; "A1"; "B"; "r1"; "s1"; "d1"; "proof"]%string.
Proof. reflexivity. Qed.
Print Assumptions C19_transcript_labels.

Theorem C19_nonce_personas : map nlabel_string [NAlpha; NdL; NdR; Nd; NEta] = ["alpha"; "dL"; "dR"; "d"; "eta"]%string.
Proof. reflexivity. Qed.
Print Assumptions C19_nonce_personas.

Theorem C19_nonce_key_layout : forall seed j k,
  nonce_key seed (Some j) (Some k) = ([0] ++ le_bytes 32 seed ++ [106] ++ le_bytes 4 (N.of_nat j) ++ [107] ++ le_bytes 4 (N.of_nat k))%N.
Proof. exact nonce_key_layout. Qed.
Print Assumptions C19_nonce_key_layout.

Theorem C19_nonce_key_injective : forall seed seed' j j' k k',
  (seed < 2 ^ 256)%N -> (seed' < 2 ^ 256)%N -> idx_ok j -> idx_ok j' -> idx_ok k -> idx_ok k' ->
  nonce_key seed j k = nonce_key seed' j' k' -> seed = seed' /\ j = j' /\ k = k'.
Proof. exact nonce_key_injective. Qed.
Print Assumptions C19_nonce_key_injective.

(** transcript order: the whole verifier log as one explicit list *)
Theorem C19_transcript_order : forall s p x, verifier_ops s p = Some x -> x = verifier_ops_pure s p.
Proof. exact verifier_ops_some. Qed.
Print Assumptions C19_transcript_order.

(** byte layout of proofs: tag, d1, A, A1, B, r1, s1, then (L_j, R_j) interleaved — and it round-trips *)
Theorem C19_proof_layout : forall p, to_bytes p =
  p_tag p :: List.concat (map enc32 (p_d1 p)) ++ enc32 (p_a p) ++ enc32 (p_a1 p) ++ enc32 (p_b p) ++ enc32 (p_r1 p) ++ enc32 (p_s1 p)
    ++ List.concat (map (fun lr => enc32 (fst lr) ++ enc32 (snd lr)) (combine (p_li p) (p_ri p))).
Proof. reflexivity. Qed.
Print Assumptions C19_proof_layout.

Theorem C19_generator_labels :
  CHAIN_PREFIX = [71; 101; 110; 101; 114; 97; 116; 111; 114; 115; 67; 104; 97; 105; 110]%N /\ kind_byte KG = 71%N /\ kind_byte KH = 72%N.
Proof. repeat split; reflexivity. Qed.
Print Assumptions C19_generator_labels.

(** ** STROBE-128 / Merlin in Gallina (Crypto/Strobe.v): what a transcript operation hands to the sponge.  The hash itself is an assumption
    (random oracle); these are the framing facts the wire format rests on, and a known answer recorded from merlin 3.0.0. *)
Theorem C19_merlin_append_framed : forall label msg s,
  t_append label msg s = ad msg (meta_ad (label ++ le32 (List.length msg)) false s).
Proof. exact t_append_framed. Qed.
Print Assumptions C19_merlin_append_framed.

Theorem C19_merlin_length_field_injective : forall label m1 m2 : list N,
  (N.of_nat (List.length m1) < 4294967296)%N -> (N.of_nat (List.length m2) < 4294967296)%N ->
  label ++ le32 (List.length m1) = label ++ le32 (List.length m2) -> List.length m1 = List.length m2.
Proof. exact framed_length_field_injective. Qed.
Print Assumptions C19_merlin_length_field_injective.

Theorem C19_merlin_framed_message_injective : forall label m1 m2 : list N,
  (label ++ le32 (List.length m1)) ++ m1 = (label ++ le32 (List.length m2)) ++ m2 -> List.length m1 = List.length m2 -> m1 = m2.
Proof. exact framed_message_injective. Qed.
Print Assumptions C19_merlin_framed_message_injective.

(** known answer: the weight transcript of a one-member batch, recorded from the instrumented merlin 3.0.0 under the verifier of 0.4.0 *)
Example C19_ex_merlin_known_answer :
  MerlinExec.failing
  [MNew 9 (B (30%N, [31653176351159618;9054973894553458;28544861224461686;29387099949441138;29556]%uint63));
   MApp 9 (B (7%N, [31636742749384548]%uint63)) (B (30%N, [31653176351159618;9054973894553458;28544861224461686;29387099949441138;29556]%uint63));
   MApp 9 (B (5%N, [439956238960]%uint63)) (B (8%N, [9498616350404949;182]%uint63));
   MRng 9 17;
   MFin 17 (B (32%N, [0;0;0;0;0]%uint63));
   MFill 17 (B (64%N, [63479738093670623;28918316817100055;57844216381232542;33603903065352136;21296569991517158;7173551327940744;20060462874246045;52670398995838497;34946478556884299;35]%uint63))] = [].
Proof. vm_compute. reflexivity. Qed.
