(** C19 — wire compatibility: the wire constants are literals of the model, with their layout theorems;
    the recorded vectors and the model-vs-implementation correspondence are the executable part. *)
From Coq Require Import List Arith NArith Bool String.
From BP Require Import Model.Codec Model.Transcript Model.Verifier Model.Nonce Model.Gens Proofs.CodecP Proofs.NonceP Proofs.TranscriptP.
Import ListNotations.

Theorem C19_transcript_labels :
  map label_string [LDomSep; LH; LG; LN; LT; LM; LCi; LProm; LA; Ly; Lz; LL; LR; Le; LA1; LB; Lr1; Ls1; Ld1; LProof]
  = ["dom-sep"; "H"; "G"; "N"; "T"; "M"; "Ci"; "vi - minimum_value"; "A"; "y"; "z"; "L"; "R"; "e"; "A1"; "B"; "r1"; "s1"; "d1"; "proof"]%string.
Proof. reflexivity. Qed.
Print Assumptions C19_transcript_labels.

Theorem C19_nonce_personas : map nlabel_string [NAlpha; NdL; NdR; Nd; NEta] = ["alpha"; "dL"; "dR"; "d"; "eta"]%string.
Proof. reflexivity. Qed.
Print Assumptions C19_nonce_personas.

Theorem C19_nonce_key_layout : forall seed j k,
  nonce_key seed (Some j) (Some k) = ([0] ++ le_bytes 32 seed ++ [106] ++ le_bytes 4 (N.of_nat j) ++ [107] ++ le_bytes 4 (N.of_nat k))%N.
Proof. exact nonce_key_layout. Qed.
Print Assumptions C19_nonce_key_layout.

Theorem C19_nonce_key_injective : forall seed seed' j j' k k',
  (seed < 2 ^ 256)%N -> (seed' < 2 ^ 256)%N -> idx_ok j -> idx_ok j' -> idx_ok k -> idx_ok k' ->
  nonce_key seed j k = nonce_key seed' j' k' -> seed = seed' /\ j = j' /\ k = k'.
Proof. exact nonce_key_injective. Qed.
Print Assumptions C19_nonce_key_injective.

(** transcript order: the whole verifier log as one explicit list *)
Theorem C19_transcript_order : forall s p x, verifier_ops s p = Some x -> x = verifier_ops_pure s p.
Proof. exact verifier_ops_some. Qed.
Print Assumptions C19_transcript_order.

(** byte layout of proofs: tag, d1, A, A1, B, r1, s1, then (L_j, R_j) interleaved — and it round-trips *)
Theorem C19_proof_layout : forall p, to_bytes p =
  p_tag p :: List.concat (map enc32 (p_d1 p)) ++ enc32 (p_a p) ++ enc32 (p_a1 p) ++ enc32 (p_b p) ++ enc32 (p_r1 p) ++ enc32 (p_s1 p)
    ++ List.concat (map (fun lr => enc32 (fst lr) ++ enc32 (snd lr)) (combine (p_li p) (p_ri p))).
Proof. reflexivity. Qed.
Print Assumptions C19_proof_layout.

Theorem C19_generator_labels :
  CHAIN_PREFIX = [71; 101; 110; 101; 114; 97; 116; 111; 114; 115; 67; 104; 97; 105; 110]%N /\ kind_byte KG = 71%N /\ kind_byte KH = 72%N.
Proof. repeat split; reflexivity. Qed.
Print Assumptions C19_generator_labels.
