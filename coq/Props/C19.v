(** C19 - wire constants (placeholder: the layout theorems are added with C13 / C04). *)
From Coq Require Import List NArith String.
From BP Require Import Model.Transcript Model.Nonce.
Theorem C19_domain_separator : label_string LDomSep = "dom-sep"%string /\ DOMSEP_LEN = 25%nat.
Proof. split; reflexivity. Qed.
Print Assumptions C19_domain_separator.
