(** C09 — mask recovery returns the commitment's exact mask, position by position. *)
From Coq Require Import List Arith NArith Bool.
From BP Require Import Base.Field Model.Verifier Model.VerifyTop Model.Prover Proofs.MaskP Proofs.VerifyTopP Proofs.CompleteP Proofs.MaskFullP Model.Nonce Proofs.SeedP.
Import ListNotations.

(** For a non-aggregated proof whose responses d1_k are the honest ones
    (eta_k + d_k e + (alpha_k + z^2 r_k y^(N+1) + sum_j (e_j^2 dL_jk + e_j^-2 dR_jk)) e^2) for nonces given by
    ANY function of (label, j, k) — in particular the seed derivation — and non-zero challenges, the
    recovery formula of the verifier returns r_k for every k < T, in order, for every bit length, number
    of rounds and extension degree. *)
Theorem C09_mask_recovery_exact : forall (K : Fld), FldOk K ->
  forall (nonce : nlabel -> option nat -> nat -> K) bits T (pf : vproof K) (ch : chals K) (rs : list K),
  c_y ch <> f0 K -> c_z ch <> f0 K -> c_e ch <> f0 K -> T <= length (v_d1 pf) ->
  (forall k, k < T -> nth k (v_d1 pf) (f0 K) = honest_d1 K nonce (c_y ch) (c_z ch) (c_e ch) (c_es ch) (1 * bits) (nth k rs (f0 K)) k) ->
  forall k, k < T -> nth k (recover_mask K nonce bits 1 T pf ch) (f0 K) = nth k rs (f0 K).
Proof. exact mask_recovery_exact. Qed.
Print Assumptions C09_mask_recovery_exact.

Theorem C09_mask_length : forall (K : Fld) nonce bits m T (pf : vproof K) ch,
  T <= length (v_d1 pf) -> length (recover_mask K nonce bits m T pf ch) = T.
Proof. exact recover_mask_length. Qed.
Print Assumptions C09_mask_length.

(** in a batch the i-th result belongs to the i-th proof *)
Theorem C09_results_aligned : forall (K : Fld) ofN mode ms ws z masks,
  fst (verify_chunk K ofN mode ms ws z) = Ok masks -> masks = map (mask_of K ofN mode) ms.
Proof. exact chunk_results_aligned. Qed.
Print Assumptions C09_results_aligned.

(** no mask in verify-only mode, none without a seed *)
Theorem C09_no_mask_verify_only : forall (K : Fld) ofN mb, mask_of K ofN VerifyOnly mb = None.
Proof. exact mask_of_verify_only. Qed.
Print Assumptions C09_no_mask_verify_only.
Theorem C09_no_mask_without_seed : forall (K : Fld) ofN mode mb, mb_seeded K mb = false -> mask_of K ofN mode mb = None.
Proof. exact mask_of_unseeded. Qed.
Print Assumptions C09_no_mask_without_seed.

(** THE PROPERTY, end to end on the model: for one commitment (any bit length, capacity, extension
    degree T = |Gb|, promise, value, nonces, non-zero challenges), the verifier's recovery formula applied
    to the responses the CODE-SHAPED PROVER emits, queried with the prover's own nonces (the seed-derived
    ones), returns exactly the commitment's blinding vector — every component, in order. *)
Theorem C09_prover_mask_recovered : forall (K : Fld), FldOk K -> forall (M : Mod K), ModOk K M -> forall (g : gens K M)
  bits cap (v : N) (p : option N) (r : list K) (nn : nonces K) (ch : pchals K),
  let T := length (g_Gb g) in
  1 <= bits -> 1 <= cap ->
  length (g_G g) = bits * cap -> length (g_Hv g) = bits * cap ->
  1 * bits = 2 ^ length (pc_es ch) ->
  pc_y ch <> f0 K -> pc_z ch <> f0 K -> pc_e ch <> f0 K -> Forall (fun e => e <> f0 K) (pc_es ch) ->
  length r = T -> wf_nonces K T (length (pc_es ch)) nn ->
  let pf := prove_core K M bits cap g [v] [p] [r] nn ch in
  recover_mask K (nonce_fn K nn) bits 1 T (mkVproof K (pp_d1 pf) (pp_r1 pf) (pp_s1 pf))
               (mkChals K (pc_y ch) (pc_z ch) (pc_es ch) (pc_e ch)) = r.
Proof. exact prover_mask_recovered. Qed.
Print Assumptions C09_prover_mask_recovered.

(** ... and with the nonce sourcing of Model/Nonce.v: the prover takes alpha, dL, dR, d, eta from the
    seed oracle (r, s from its transcript RNG, any outputs), the verifier queries the SAME seed oracle:
    recovery returns the blinding vector.  [seed_nonce] is an arbitrary function of (label, j, k) — in
    the code, keyed Blake2b of the documented key (C13_seeded_slots_documented, C19_nonce_key_layout). *)
Theorem C09_seeded_recovery_exact : forall (K : Fld), FldOk K -> forall (M : Mod K), ModOk K M ->
  forall (seed_nonce : nlabel -> option nat -> nat -> K) (rng : nat -> list K) (g : gens K M)
  bits cap (v : N) (p : option N) (r : list K) (ch : pchals K),
  let T := length (g_Gb g) in
  let rounds := length (pc_es ch) in
  1 <= bits -> 1 <= cap ->
  length (g_G g) = bits * cap -> length (g_Hv g) = bits * cap ->
  1 * bits = 2 ^ rounds ->
  pc_y ch <> f0 K -> pc_z ch <> f0 K -> pc_e ch <> f0 K -> Forall (fun e => e <> f0 K) (pc_es ch) ->
  length r = T ->
  let nn := assign K seed_nonce rng true T rounds in
  let pf := prove_core K M bits cap g [v] [p] [r] nn ch in
  recover_mask K seed_nonce bits 1 T (mkVproof K (pp_d1 pf) (pp_r1 pf) (pp_s1 pf))
               (mkChals K (pc_y ch) (pc_z ch) (pc_es ch) (pc_e ch)) = r.
Proof. exact seeded_recovery_exact. Qed.
Print Assumptions C09_seeded_recovery_exact.

(** Whole batches, every chunk boundary: whenever [verify_batch] returns Ok, the results are exactly
    [map (mask_of mode) ms] — result i is the mask computed for member i of the WHOLE batch (Some only for a seeded,
    non-aggregated member in a recovering mode), never shifted, dropped or padded by the split into chunks of 256. *)
From BP Require Import Proofs.BatchTopP Proofs.BatchAlignP.
Theorem C09_batch_results_aligned : forall (K : Fld) (ofN : N -> F K) (mode : vmode) (ns np nt : nat) (ms : list (member K))
    (orc : list (list (F K) * bool)) (masks : list (option (list (F K)))),
  verify_batch K ofN mode ns np nt ms orc = Ok masks -> masks = map (mask_of K ofN mode) ms.
Proof. exact batch_results_aligned. Qed.
Print Assumptions C09_batch_results_aligned.

(** THE PROPERTY IN WHOLE BATCHES: wherever a seeded, non-aggregated member made by the code-shaped prover (nonces
    assigned as in Model/Nonce.v from the seed oracle) sits in a batch that [verify_batch] answers with Ok — any position,
    any chunk, whatever the other members are — the result at that position is Some of its commitment's blinding vector,
    in both recovering modes.  (C09_batch_results_aligned + C09_seeded_recovery_exact.) *)
From BP Require Import Model.Nonce Proofs.HonestTopP Proofs.MaskBatchP.
Theorem C09_in_batch_recovery : forall (K : Fld), FldOk K -> forall (M : Mod K), ModOk K M ->
  forall (ofN : N -> K) (toN : K -> N), (forall x, ofN (toN x) = x) ->
  forall (enc : M -> N) (seed_nonce : nlabel -> option nat -> nat -> K) (rng : nat -> list K) (g : gens K M)
         bits cap (v : N) (p : option N) (r : list K) (ch : pchals K) mode ns np nt ms orc masks i,
  let T := length (g_Gb g) in
  let rounds := length (pc_es ch) in
  let nn := assign K seed_nonce rng true T rounds in
  verify_batch K ofN mode ns np nt ms orc = Ok masks ->
  nth_error ms i = Some (honest_member K M toN enc g bits cap [v] [p] [r] nn ch true seed_nonce) ->
  mode <> VerifyOnly ->
  1 <= bits -> 1 <= cap -> length (g_G g) = bits * cap -> length (g_Hv g) = bits * cap ->
  1 * bits = 2 ^ rounds ->
  pc_y ch <> f0 K -> pc_z ch <> f0 K -> pc_e ch <> f0 K -> Forall (fun e => e <> f0 K) (pc_es ch) ->
  length r = T ->
  nth_error masks i = Some (Some r).
Proof. intros K Kok M Mok ofN toN OT enc. exact (in_batch_recovery K Kok M Mok ofN toN OT enc). Qed.
Print Assumptions C09_in_batch_recovery.
