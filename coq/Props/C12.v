(** C12 — proof validity does not depend on generator capacity. *)
From Coq Require Import List Arith NArith Bool.
From BP Require Import Base.Field Model.Verifier Model.VerifyTop Model.Prover Model.Gens Proofs.GuardsP Proofs.GensP.
Import ListNotations.
Local Close Scope N_scope.

(** zero padding up to the table size contributes nothing: A is the same function of the first bits*m
    generators for every capacity *)
Theorem C12_commit_A_capacity_independent : forall (K : Fld), FldOk K -> forall (M : Mod K), ModOk K M ->
  forall (g : gens K M) aL aR alpha padding,
  length aL = length aR -> length aL <= length (g_G g) -> length aL <= length (g_Hv g) ->
  commit_A K M g aL aR alpha padding = vadd M (vadd M (msm aL (g_G g)) (msm aR (g_Hv g))) (msm alpha (g_Gb g)).
Proof. exact commit_A_capacity_independent. Qed.
Print Assumptions C12_commit_A_capacity_independent.

(** the padding is exactly what fills the table: 2*bits*(cap - m), defined iff m <= cap (no overflow) *)
Theorem C12_padding_spec : forall bits m cap pad : N,
  generator_padding bits m cap = Some pad -> ((m <= cap \/ bits = 0) /\ pad = 2 * bits * cap - 2 * bits * m /\ 2 * bits * cap < 2 ^ 64)%N.
Proof. exact generator_padding_spec. Qed.
Print Assumptions C12_padding_spec.

Theorem C12_static_scalars_fill_table : forall (K : Fld) (acc : batch_acc K) bits m cap pad,
  generator_padding (N.of_nat bits) (N.of_nat m) (N.of_nat cap) = Some pad ->
  length (a_gi acc) = m * bits -> length (a_hi acc) = m * bits -> m <= cap ->
  length (fst (final_msm K acc (N.to_nat pad))) = 2 * bits * cap.
Proof. exact static_length_matches_table. Qed.
Print Assumptions C12_static_scalars_fill_table.

(** generator (kind, party, index): a smaller request sees a prefix of the same chain *)
Theorem C12_chain_prefix : forall n n' bs, n <= n' -> split64 n bs = firstn n (split64 n' bs).
Proof. exact split64_firstn. Qed.
Print Assumptions C12_chain_prefix.
