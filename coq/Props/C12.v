(** C12 - placeholder until the capacity theorems land. *)
From Coq Require Import List NArith.
From BP Require Import Model.VerifyTop.
Theorem C12_padding_exact : generator_padding 64 1 2 = Some 128%N.
Proof. reflexivity. Qed.
Print Assumptions C12_padding_exact.
