(** C12 — proof validity does not depend on generator capacity. *)
From Coq Require Import List Arith NArith Bool.
From BP Require Import Base.Field Model.Verifier Model.VerifyTop Model.Prover Model.Gens Proofs.GuardsP Proofs.GensP.
Import ListNotations.
From BP Require Import Model.Prover Proofs.CompleteP Proofs.CapacityP.
Local Close Scope N_scope.

(** zero padding up to the table size contributes nothing: A is the same function of the first bits*m
    generators for every capacity *)
Theorem C12_commit_A_capacity_independent : forall (K : Fld), FldOk K -> forall (M : Mod K), ModOk K M ->
  forall (g : gens K M) aL aR alpha padding,
  length aL = length aR -> length aL <= length (g_G g) -> length aL <= length (g_Hv g) ->
  commit_A K M g aL aR alpha padding = vadd M (vadd M (msm aL (g_G g)) (msm aR (g_Hv g))) (msm alpha (g_Gb g)).
Proof. exact commit_A_capacity_independent. Qed.
Print Assumptions C12_commit_A_capacity_independent.

(** the padding is exactly what fills the table: 2*bits*(cap - m), defined iff m <= cap (no overflow) *)
Theorem C12_padding_spec : forall bits m cap pad : N,
  generator_padding bits m cap = Some pad -> ((m <= cap \/ bits = 0) /\ pad = 2 * bits * cap - 2 * bits * m /\ 2 * bits * cap < 2 ^ 64)%N.
Proof. exact generator_padding_spec. Qed.
Print Assumptions C12_padding_spec.

Theorem C12_static_scalars_fill_table : forall (K : Fld) (acc : batch_acc K) bits m cap pad,
  generator_padding (N.of_nat bits) (N.of_nat m) (N.of_nat cap) = Some pad ->
  length (a_gi acc) = m * bits -> length (a_hi acc) = m * bits -> m <= cap ->
  length (fst (final_msm K acc (N.to_nat pad))) = 2 * bits * cap.
Proof. exact static_length_matches_table. Qed.
Print Assumptions C12_static_scalars_fill_table.

(** generator (kind, party, index): a smaller request sees a prefix of the same chain *)
Theorem C12_chain_prefix : forall n n' bs, n <= n' -> split64 n bs = firstn n (split64 n' bs).
Proof. exact split64_firstn. Qed.
Print Assumptions C12_chain_prefix.

(** THE PROPERTY on the prover side: the proof does not depend on the capacity of the parameter object.
    Generator sets that agree on H, the blinding generators and the first m*bits vector generators (every
    capacity is a prefix view of the same chains: C12_chain_prefix) give the SAME proof under the same
    nonces and challenges, whatever the two capacities and zero paddings. *)
Theorem C12_prover_capacity_independent : forall (K : Fld), FldOk K -> forall (M : Mod K), ModOk K M ->
  forall (g1 g2 : gens K M) bits cap1 cap2 (values : list N) (promises : list (option N)) (blindings : list (list K)) (nn : nonces K) (ch : pchals K) a,
  let m := length values in
  let N := (m * bits)%nat in
  let T := length (g_Gb g1) in
  g_H g1 = g_H g2 -> g_Gb g1 = g_Gb g2 ->
  firstn N (g_G g1) = firstn N (g_G g2) -> firstn N (g_Hv g1) = firstn N (g_Hv g2) ->
  (1 <= bits)%nat -> m = (2 ^ a)%nat -> (m <= cap1)%nat -> (m <= cap2)%nat ->
  length (g_G g1) = (bits * cap1)%nat -> length (g_Hv g1) = (bits * cap1)%nat ->
  length (g_G g2) = (bits * cap2)%nat -> length (g_Hv g2) = (bits * cap2)%nat ->
  N = (2 ^ length (pc_es ch))%nat -> pc_y ch <> f0 K -> Forall (fun e => e <> f0 K) (pc_es ch) ->
  length promises = m -> length blindings = m -> Forall (fun r => length r = T) blindings ->
  wf_nonces K T (length (pc_es ch)) nn ->
  prove_core K M bits cap1 g1 values promises blindings nn ch = prove_core K M bits cap2 g2 values promises blindings nn ch.
Proof. exact prover_capacity_independent. Qed.
Print Assumptions C12_prover_capacity_independent.

(** Verifier side: the value of the batch's final product does not depend on the capacity of the generator table the
    verifier owns.  Two tables that agree on the first max_mn vector generators (C11: every capacity is a prefix view of
    the same chains) give the same product, whatever lies beyond and whatever zero padding is applied up to the table size. *)
From BP Require Import Proofs.BatchP Proofs.BatchEquivP Proofs.CapacityVP.
Theorem C12_verifier_capacity_independent : forall (K : Fld), FldOk K -> forall (M : Mod K), ModOk K M ->
  forall (H : M) (Gb G1 Hv1 G2 Hv2 : list M) (mx pad1 pad2 : nat) (bs : list (bmember K M)),
  Forall (b_ok K M Gb mx) bs ->
  mx <= length G1 -> mx <= length Hv1 -> mx <= length G2 -> mx <= length Hv2 ->
  firstn mx G1 = firstn mx G2 -> firstn mx Hv1 = firstn mx Hv2 ->
  let acc := acc_all K (acc_init K mx (length Gb)) (map (b_terms K M) bs) in
  let dyn := flat_map (dyn_of K M) (map (b_pts K M) bs) ++ Gb ++ [H] in
  vadd M (msm (fst (final_msm K acc pad1)) (interleaveM K M G1 Hv1)) (msm (snd (final_msm K acc pad1)) dyn)
  = vadd M (msm (fst (final_msm K acc pad2)) (interleaveM K M G2 Hv2)) (msm (snd (final_msm K acc pad2)) dyn).
Proof. exact verifier_capacity_independent. Qed.
Print Assumptions C12_verifier_capacity_independent.
