(** C10 - placeholder until the recovery theorems land. *)
From Coq Require Import List NArith.
From BP Require Import Base.Field Model.VerifyTop.
Theorem C10_verify_only_no_mask : forall (K : Fld) ofN (mb : member K), mask_of K ofN VerifyOnly mb = None.
Proof. reflexivity. Qed.
Print Assumptions C10_verify_only_no_mask.
