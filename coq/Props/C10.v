(** C10 — mask recovery is keyed by the seed and never changes the verdict. *)
From Coq Require Import List Arith NArith Bool.
From BP Require Import Base.Field Model.Verifier Model.VerifyTop Proofs.MaskP Proofs.VerifyTopP Model.Prover Proofs.CompleteP Proofs.MaskFullP.
Import ListNotations.

(** Non-interference: the accept/reject verdict of a chunk and every scalar of its final check are the
    same whether or not the statements carry seeds, in either verifying mode, for valid and invalid
    proofs alike. *)
Theorem C10_verdict_independent_of_seed_and_mode : forall (K : Fld) ofN m1 m2 ms ws z,
  verifying m1 = true -> verifying m2 = true ->
  is_ok (fst (verify_chunk K ofN m1 ms ws z)) = is_ok (fst (verify_chunk K ofN m2 (map (forget_seed K) ms) ws z))
  /\ snd (verify_chunk K ofN m1 ms ws z) = snd (verify_chunk K ofN m2 (map (forget_seed K) ms) ws z).
Proof. exact verdict_independent_of_seed_and_mode. Qed.
Print Assumptions C10_verdict_independent_of_seed_and_mode.

(** Recover-only returns, for everything recover-and-verify accepts, the same masks. *)
Theorem C10_recover_only_same_masks : forall (K : Fld) ofN ms ws z masks,
  fst (verify_chunk K ofN RecoverAndVerify ms ws z) = Ok masks -> fst (verify_chunk K ofN RecoverOnly ms ws z) = Ok masks.
Proof. exact recover_only_same_masks. Qed.
Print Assumptions C10_recover_only_same_masks.

(** What a different seed returns: the true mask plus an explicit combination of the nonce differences
    divided by e^2 z^2 y^(N+1); it is the true mask iff that combination vanishes (probability 1/l when
    the nonces of different seeds are independent — TRUSTED, Blake2b as a PRF keyed by the whole seed,
    with the key layout proved injective in C13). *)
Theorem C10_wrong_seed_delta : forall (K : Fld), FldOk K ->
  forall (nonce nc' : nlabel -> option nat -> nat -> K) y z e es N r k,
  y <> f0 K -> z <> f0 K -> e <> f0 K ->
  let esq := map (fun c => fmul K c c) es in
  let esq_inv := map (fun c => fmul K c c) (map (finv K) es) in
  let delta := fadd K (fadd K (fsub K (nc' NEta None k) (nonce NEta None k)) (fmul K (fsub K (nc' Nd None k) (nonce Nd None k)) e))
                 (fmul K (fadd K (fsub K (nc' NAlpha None k) (nonce NAlpha None k))
                                 (fsub K (round_sum K nc' k 0 esq esq_inv) (round_sum K nonce k 0 esq esq_inv))) (fmul K e e)) in
  recover_one K nonce y z e es N k (honest_d1 K nc' y z e es N r k)
  = fadd K r (fmul K delta (finv K (fmul K (fmul K e e) (fmul K (fmul K z z) (fmul K (fpow K y N) y))))).
Proof. exact recover_one_wrong_seed. Qed.
Print Assumptions C10_wrong_seed_delta.

(** END TO END on the model: the prover takes its nonces from [nn] (seed-derived in the code), the
    verifier queries ANOTHER oracle [other] (another seed): every recovered component is the blinding
    factor plus an explicit combination of the nonce differences divided by e^2 z^2 y^(N+1) — it is the
    true mask only if that combination vanishes (probability 1/l for independent oracle outputs: NOT a
    theorem), and it never touches the verdict (C10_verdict_independent_of_seed_and_mode). *)
Theorem C10_wrong_seed_end_to_end : forall (K : Fld), FldOk K -> forall (M : Mod K), ModOk K M -> forall (g : gens K M)
  bits cap (v : N) (p : option N) (r : list K) (nn : nonces K) (ch : pchals K) (other : nlabel -> option nat -> nat -> K),
  let T := length (g_Gb g) in
  (1 <= bits)%nat -> (1 <= cap)%nat ->
  length (g_G g) = (bits * cap)%nat -> length (g_Hv g) = (bits * cap)%nat ->
  (1 * bits)%nat = (2 ^ length (pc_es ch))%nat ->
  pc_y ch <> f0 K -> pc_z ch <> f0 K -> pc_e ch <> f0 K -> Forall (fun e => e <> f0 K) (pc_es ch) ->
  length r = T -> wf_nonces K T (length (pc_es ch)) nn ->
  let pf := prove_core K M bits cap g [v] [p] [r] nn ch in
  let y := pc_y ch in let z := pc_z ch in let e := pc_e ch in let es := pc_es ch in
  let esq := map (fun c => fmul K c c) es in
  let esq_inv := map (fun c => fmul K c c) (map (finv K) es) in
  forall k, (k < T)%nat ->
  nth k (recover_mask K other bits 1 T (mkVproof K (pp_d1 pf) (pp_r1 pf) (pp_s1 pf)) (mkChals K y z es e)) (f0 K)
  = fadd K (nth k r (f0 K))
      (fmul K
        (fadd K (fadd K (fsub K (nonce_fn K nn NEta None k) (other NEta None k)) (fmul K (fsub K (nonce_fn K nn Nd None k) (other Nd None k)) e))
                (fmul K (fadd K (fsub K (nonce_fn K nn NAlpha None k) (other NAlpha None k))
                                (fsub K (round_sum K (nonce_fn K nn) k 0 esq esq_inv) (round_sum K other k 0 esq esq_inv))) (fmul K e e)))
        (finv K (fmul K (fmul K e e) (fmul K (fmul K z z) (fmul K (fpow K y (1 * bits)) y))))).
Proof. exact prover_mask_wrong_oracle. Qed.
Print Assumptions C10_wrong_seed_end_to_end.

(** the same two statements for WHOLE BATCHES, across every chunk boundary, with the same oracles: whatever
    recover-and-verify accepts, recover-only answers with the same masks at the same positions; and whether [verify_batch]
    returns Ok does not depend on which verifying mode is asked nor on the seeds the statements carry *)
From BP Require Import Proofs.BatchTopP Proofs.BatchModeP.
Theorem C10_batch_recover_only_same_masks : forall (K : Fld) (ofN : N -> K) ns np nt ms orc masks,
  verify_batch K ofN RecoverAndVerify ns np nt ms orc = Ok masks -> verify_batch K ofN RecoverOnly ns np nt ms orc = Ok masks.
Proof. exact batch_recover_only_same_masks. Qed.
Print Assumptions C10_batch_recover_only_same_masks.

Theorem C10_batch_verdict_independent_of_seed_and_mode : forall (K : Fld) (ofN : N -> K) m1 m2 ns np nt ms orc,
  verifying m1 = true -> verifying m2 = true ->
  (exists a, verify_batch K ofN m1 ns np nt ms orc = Ok a) <-> (exists a, verify_batch K ofN m2 ns np nt (map (forget_seed K) ms) orc = Ok a).
Proof. exact batch_verdict_independent_of_seed_and_mode. Qed.
Print Assumptions C10_batch_verdict_independent_of_seed_and_mode.
