(** C03 - placeholder until the batch theorems land. *)
From Coq Require Import List.
From BP Require Import Base.Field Model.VerifyTop.
Theorem C03_placeholder : MAX_BATCH = 256.
Proof. reflexivity. Qed.
Print Assumptions C03_placeholder.
