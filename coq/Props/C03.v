(** C03 — batch verification: structure theorems about the model of the repaired code (the chunk loop
    is explicit, constant 256).  The "only if" direction for equation failures is probabilistic (a bad
    member survives for at most one value of its weight: C08 + random oracle) and is not a theorem. *)
From Coq Require Import List Arith NArith Bool.
From BP Require Import Base.Field Model.Verifier Model.VerifyTop Model.Prover Model.RangeSpec Proofs.VerifyTopP Proofs.VerifierEquivP Proofs.BatchP Proofs.BatchEquivP.
Local Close Scope N_scope.
Import ListNotations.

(** the chunks cover the batch exactly, in order, each non-empty and of at most 256 members *)
Theorem C03_chunks_cover : forall (A : Type) (l : list A),
  concat (chunks_of (length l) MAX_BATCH l) = l /\
  Forall (fun ch => length ch <= MAX_BATCH) (chunks_of (length l) MAX_BATCH l) /\
  Forall (fun ch => ch <> []) (chunks_of (length l) MAX_BATCH l).
Proof.
  intros A l. repeat split; [apply chunks_of_concat; unfold MAX_BATCH; auto with arith|apply chunks_of_bound|
                             apply chunks_of_nonempty; unfold MAX_BATCH; auto with arith].
Qed.
Print Assumptions C03_chunks_cover.

Theorem C03_empty_refused : forall (K : Fld) ofN mode ns np nt ms orc,
  ns = 0 \/ np = 0 \/ nt = 0 -> verify_batch K ofN mode ns np nt ms orc = Err.
Proof. exact batch_refuses_empty. Qed.
Print Assumptions C03_empty_refused.

Theorem C03_length_mismatch_refused : forall (K : Fld) ofN mode ns np nt ms orc,
  ns <> np \/ nt <> ns -> verify_batch K ofN mode ns np nt ms orc = Err.
Proof. exact batch_refuses_length_mismatch. Qed.
Print Assumptions C03_length_mismatch_refused.

Theorem C03_disagreement_refused : forall (K : Fld) ofN mode first rest ws z,
  (exists mb, In mb rest /\ (mb_bits K mb <> mb_bits K first \/ mb_T K mb <> mb_T K first \/ mb_Henc K mb <> mb_Henc K first
                             \/ mb_Gbenc K mb <> mb_Gbenc K first)) ->
  fst (verify_chunk K ofN mode (first :: rest) ws z) = Err.
Proof. exact chunk_refuses_disagreement. Qed.
Print Assumptions C03_disagreement_refused.

(** on success a chunk returns exactly one result per member, the i-th belonging to the i-th member *)
Theorem C03_results_aligned : forall (K : Fld) ofN mode ms ws z masks,
  fst (verify_chunk K ofN mode ms ws z) = Ok masks -> masks = map (mask_of K ofN mode) ms.
Proof. exact chunk_results_aligned. Qed.
Print Assumptions C03_results_aligned.

(** the second loop accumulates exactly the members' terms, in order, each under its own weight *)
Theorem C03_loop_accumulates_members : forall (K : Fld) ofN mode, mode <> RecoverOnly -> forall ms ws acc masks acc' masks',
  proof_loop K ofN mode ms ws acc masks = Ok (acc', masks') -> acc' = acc_all K acc (terms_list K ofN ms ws).
Proof. exact proof_loop_acc. Qed.
Print Assumptions C03_loop_accumulates_members.

(** THE BATCH EQUATION: for members of any mixture of aggregation factors sharing the owner's generator
    vectors G, Hv (any capacity >= the largest member), arbitrary (also dishonest) proofs and arbitrary
    weights, the single multiscalar product the batch ends with — accumulated scalars interleaved and
    zero-padded against the table, dynamic points in code order — equals sum_p w_p * residual_p with
    residual_p the textbook Bulletproofs+ residual of member p.  [b_ok] collects what the guards of the
    code establish for each member (constructor invariants, round-count check, non-zero challenges, y <> 1). *)
Theorem C03_batch_is_weighted_residuals : forall (K : Fld), FldOk K -> forall (M : Mod K), ModOk K M ->
  forall (H : M) (Gb G Hv : list M) max_mn pad (bs : list (bmember K M)),
  Forall (b_ok K M Gb max_mn) bs -> max_mn <= length G -> max_mn <= length Hv ->
  let sc := final_msm K (acc_all K (acc_init K max_mn (length Gb)) (map (b_terms K M) bs)) pad in
  vadd M (msm (fst sc) (interleaveM K M G Hv)) (msm (snd sc) (flat_map (dyn_of K M) (map (b_pts K M) bs) ++ Gb ++ [H]))
  = weighted_residuals K M H Gb G Hv bs.
Proof. exact batch_is_weighted_residuals. Qed.
Print Assumptions C03_batch_is_weighted_residuals.

(** "if" direction: when every member satisfies the textbook equation the batch product vanishes *)
Theorem C03_batch_accepts_if_all_accept : forall (K : Fld), FldOk K -> forall (M : Mod K), ModOk K M ->
  forall (H : M) (Gb G Hv : list M) max_mn pad (bs : list (bmember K M)),
  Forall (b_ok K M Gb max_mn) bs -> max_mn <= length G -> max_mn <= length Hv ->
  Forall (fun b => b_residual K M H Gb G Hv b = v0 M) bs ->
  let sc := final_msm K (acc_all K (acc_init K max_mn (length Gb)) (map (b_terms K M) bs)) pad in
  vadd M (msm (fst sc) (interleaveM K M G Hv)) (msm (snd sc) (flat_map (dyn_of K M) (map (b_pts K M) bs) ++ Gb ++ [H])) = v0 M.
Proof. exact batch_accepts_if_all_accept. Qed.
Print Assumptions C03_batch_accepts_if_all_accept.
(** "only if": by [C03_batch_is_weighted_residuals] a batch with a member whose residual is non-zero
    passes for at most one value of that member's weight (C08_bad_weight_unique); the weights are oracle
    outputs on an input containing every proof of the chunk completely (C08).  That last step is the
    random-oracle argument and is NOT a theorem. *)

(** the scalars the model of [RangeProof::verify] hands to the final multiscalar multiplication (the ones
    compared with the implementation's on every run) are [final_msm] of the members' accumulated terms —
    the object of [C03_batch_is_weighted_residuals]; and the chunk is accepted only if that product is
    the identity *)
Theorem C03_chunk_scalars : forall (K : Fld) ofN mode ms ws z r sc,
  verify_chunk K ofN mode ms ws z = (r, Some sc) ->
  exists max_mn max_index first pad,
    consistency K ms = Some (max_mn, max_index) /\ hd first ms = first /\
    sc = final_msm K (acc_all K (acc_init K max_mn (mb_T K first)) (terms_list K ofN ms ws)) pad /\
    (r = Err \/ z = true).
Proof. exact verify_chunk_scalars. Qed.
Print Assumptions C03_chunk_scalars.

(** "only if", as far as it is deterministic: a member whose textbook residual is non-zero lets the batch
    product vanish for at most ONE value of its own weight (other members and weights fixed) *)
From BP Require Import Proofs.BatchOnlyIfP.
Theorem C03_bad_member_unique_weight : forall (K : Fld), FldOk K -> forall (M : Mod K), ModOk K M -> forall (H : M) (Gb G Hv : list M)
  (pre post : list (bmember K M)) (b : bmember K M) (w w' : K),
  b_residual K M H Gb G Hv b <> v0 M ->
  weighted_residuals K M H Gb G Hv (pre ++ with_weight K M b w :: post) = v0 M ->
  weighted_residuals K M H Gb G Hv (pre ++ with_weight K M b w' :: post) = v0 M -> w = w'.
Proof. exact bad_member_unique_weight. Qed.
Print Assumptions C03_bad_member_unique_weight.

(** THE TOP OF THE CHAIN, on the model that is compared with the implementation on every run: if
    [verify_chunk] accepts a chunk in a verifying mode — the back end having found the final multiscalar
    product to be the identity — then the weighted sum of the members' TEXTBOOK residuals is the identity.
    [member_wf] collects what the guards of verify itself do not establish: the constructor invariants of
    the statements, the shape of the challenge oracle and y <> 1.  [dec] is point decompression. *)
From BP Require Import Proofs.TopP.
Theorem C03_accepted_chunk_means_zero_weighted_residuals : forall (K : Fld), FldOk K -> forall (M : Mod K), ModOk K M ->
  forall (ofN : N -> K) (dec : N -> M) (H : M) (Gb G Hv : list M) mode ms ws masks sc,
  mode <> RecoverOnly ->
  Forall (member_wf K M Gb) ms ->
  verify_chunk K ofN mode ms ws true = (Ok masks, Some sc) ->
  forall max_mn, (exists mi, consistency K ms = Some (max_mn, mi)) -> max_mn <= length G -> max_mn <= length Hv ->
  vadd M (msm (fst sc) (interleaveM K M G Hv)) (msm (snd sc) (flat_map (dyn_of K M) (map (pts_of K M dec) ms) ++ Gb ++ [H])) = v0 M ->
  weighted_residuals K M H Gb G Hv (to_bs K M ofN dec ms ws) = v0 M.
Proof. exact accepted_chunk_means_zero_weighted_residuals. Qed.
Print Assumptions C03_accepted_chunk_means_zero_weighted_residuals.

(** whole batches: Ok exactly when the three slices have equal non-zero length and every chunk of at most
    256 members is accepted in turn; the result is the concatenation of the chunks' results in order *)
From BP Require Import Proofs.BatchTopP.
Theorem C03_verify_batch_ok_iff : forall (K : Fld) ofN mode ns np nt ms orc masks,
  verify_batch K ofN mode ns np nt ms orc = Ok masks <->
  (ns <> 0 /\ np = ns /\ nt = ns /\ all_ok (chunk_results K ofN mode (chunks_of (length ms) MAX_BATCH ms) orc) = Some masks).
Proof. exact verify_batch_ok_iff. Qed.
Print Assumptions C03_verify_batch_ok_iff.
Theorem C03_one_refused_chunk_refuses_the_batch : forall (K : Fld) ofN mode ns np nt ms orc,
  In Err (chunk_results K ofN mode (chunks_of (length ms) MAX_BATCH ms) orc) -> verify_batch K ofN mode ns np nt ms orc = Err.
Proof. exact verify_batch_err_if_chunk_err. Qed.
Print Assumptions C03_one_refused_chunk_refuses_the_batch.

(** "ONLY IF", THE DETERMINISTIC CASE, on the executed model: every member of a chunk but one is a statement / proof pair made by
    the code-shaped prover for a valid witness ([hmember] of [hp_ok] parameters, any mixture of aggregation factors), the remaining
    member is ARBITRARY — any proof bytes, any statement over the same generators.  If [verify_chunk] accepts the chunk in a
    verifying mode, the back end having found the identity, and the weight drawn for the unknown member is non-zero
    (C08_weights_nonzero), then the TEXTBOOK verifier accepts the unknown member.  Honest companions cannot carry an invalid
    proof through a batch; no random-oracle step is involved because one residual only is unknown. *)
From BP Require Import Model.Codec Proofs.HonestTopP Proofs.HonestBatchTopP Proofs.OneUnknownP.
Local Close Scope N_scope.
Theorem C03_one_unknown_member_among_honest : forall (K : Fld), FldOk K -> forall (M : Mod K), ModOk K M ->
  forall (ofN : N -> K) (toN : K -> N), (forall x, ofN (toN x) = x) ->
  forall (enc : M -> N) (dec : N -> M), (forall p, dec (enc p) = p) ->
  forall (g : gens K M) bits cap,
  1 <= bits -> length (g_G g) = bits * cap -> length (g_Hv g) = bits * cap -> 1 <= length (g_Gb g) <= 6 ->
  (2 * N.of_nat bits * N.of_nat cap < 2 ^ 64)%N -> enc (g_H g) <> 0%N -> Forall (fun q => enc q <> 0%N) (g_Gb g) ->
  forall mode (pre post : list (hparams K)) (mb : member K) ws masks sc mx,
  let ms := map (hmember K M toN enc g bits cap) pre ++ mb :: map (hmember K M toN enc g bits cap) post in
  let w := nth (length pre) ws (f0 K) in
  mode <> RecoverOnly -> w <> f0 K ->
  Forall (hp_ok K M enc g bits cap) pre -> Forall (hp_ok K M enc g bits cap) post ->
  member_wf K M (g_Gb g) mb ->
  verify_chunk K ofN mode ms ws true = (Ok masks, Some sc) ->
  (exists mi, consistency K ms = Some (mx, mi)) -> mx <= bits * cap ->
  vadd M (msm (fst sc) (interleaveM K M (g_G g) (g_Hv g)))
         (msm (snd sc) (flat_map (dyn_of K M) (map (pts_of K M dec) ms) ++ g_Gb g ++ [g_H g])) = v0 M ->
  let pr := mb_proof K mb in
  let Nn := length (mb_promises K mb) * mb_bits K mb in
  spec_accepts K M (mb_bits K mb) (g_H g) (g_Gb g) (firstn Nn (g_G g)) (firstn Nn (g_Hv g)) (map dec (mb_Venc K mb)) (mb_promises K mb)
    (mkRproof K M (dec (p_a pr)) (combine (map dec (p_li pr)) (map dec (p_ri pr))) (dec (p_a1 pr)) (dec (p_b pr))
              (ofN (p_r1 pr)) (ofN (p_s1 pr)) (map ofN (p_d1 pr)))
    (c_y (mb_ch K mb)) (c_z (mb_ch K mb)) (c_es (mb_ch K mb)) (c_e (mb_ch K mb)).
Proof.
  intros K Kok M Mok ofN toN OT enc dec DE g bits cap Hb LG LH HT Hpad EH EGb.
  exact (one_unknown_textbook_accepts K Kok M Mok ofN toN OT enc dec DE g bits cap Hb LG LH HT Hpad EH EGb).
Qed.
Print Assumptions C03_one_unknown_member_among_honest.

(** WHY THE CONTEXT EMBEDDING OF THE CHECKS IS A SOUND ORACLE (tools/lib/sessions.py verifies a triple again inside batches of honest
    proofs and demands the same verdict): on the model, an arbitrary member that gets through its own per-member guards
    ([passes_guards]: nothing about its validity), placed anywhere among members made by the code-shaped prover for valid witnesses,
    contributes [w * residual] to the product the chunk ends with and the companions contribute nothing; so, for non-zero weights,
    the chunk's product is the identity iff the product of that member verified alone is. *)
From BP Require Import Proofs.EmbeddingP Proofs.BatchP Proofs.BatchEquivP.
Theorem C03_embedding_product : forall (K : Fld), FldOk K -> forall (M : Mod K), ModOk K M ->
  forall (ofN : N -> K) (toN : K -> N), (forall x, ofN (toN x) = x) ->
  forall (enc : M -> N) (dec : N -> M), (forall p, dec (enc p) = p) ->
  forall (g : gens K M) bits cap,
  1 <= bits -> length (g_G g) = bits * cap -> length (g_Hv g) = bits * cap -> 1 <= length (g_Gb g) <= 6 ->
  (2 * N.of_nat bits * N.of_nat cap < 2 ^ 64)%N -> enc (g_H g) <> 0%N -> Forall (fun q => enc q <> 0%N) (g_Gb g) ->
  forall (pre post : list (hparams K)) (mb : member K) ws pad,
  let ms := map (hmember K M toN enc g bits cap) pre ++ mb :: map (hmember K M toN enc g bits cap) post in
  let w := nth (length pre) ws (f0 K) in
  let mx := bits * cap in
  Forall (hp_ok K M enc g bits cap) pre -> Forall (hp_ok K M enc g bits cap) post ->
  passes_guards K M g mb -> mb_N K mb <= mx ->
  let sc := final_msm K (acc_all K (acc_init K mx (length (g_Gb g))) (terms_list K ofN ms ws)) pad in
  vadd M (msm (fst sc) (interleaveM K M (g_G g) (g_Hv g))) (msm (snd sc) (flat_map (dyn_of K M) (map (pts_of K M dec) ms) ++ g_Gb g ++ [g_H g]))
  = smul M w (b_residual K M (g_H g) (g_Gb g) (g_G g) (g_Hv g) (to_b K M ofN dec mb w)).
Proof.
  intros K Kok M Mok ofN toN OT enc dec DE g bits cap Hb LG LH HT Hpad EH EGb.
  exact (embedding_product K Kok M Mok ofN toN OT enc dec DE g bits cap Hb LG LH HT Hpad EH EGb).
Qed.
Print Assumptions C03_embedding_product.

Theorem C03_embedding_sound : forall (K : Fld), FldOk K -> forall (M : Mod K), ModOk K M ->
  forall (ofN : N -> K) (toN : K -> N), (forall x, ofN (toN x) = x) ->
  forall (enc : M -> N) (dec : N -> M), (forall p, dec (enc p) = p) ->
  forall (g : gens K M) bits cap,
  1 <= bits -> length (g_G g) = bits * cap -> length (g_Hv g) = bits * cap -> 1 <= length (g_Gb g) <= 6 ->
  (2 * N.of_nat bits * N.of_nat cap < 2 ^ 64)%N -> enc (g_H g) <> 0%N -> Forall (fun q => enc q <> 0%N) (g_Gb g) ->
  forall (pre post : list (hparams K)) (mb : member K) ws w1 pad pad1,
  let ms := map (hmember K M toN enc g bits cap) pre ++ mb :: map (hmember K M toN enc g bits cap) post in
  let w := nth (length pre) ws (f0 K) in
  let mx := bits * cap in
  w <> f0 K -> w1 <> f0 K ->
  Forall (hp_ok K M enc g bits cap) pre -> Forall (hp_ok K M enc g bits cap) post ->
  passes_guards K M g mb -> mb_N K mb <= mx ->
  let sc := final_msm K (acc_all K (acc_init K mx (length (g_Gb g))) (terms_list K ofN ms ws)) pad in
  let sc1 := final_msm K (acc_all K (acc_init K mx (length (g_Gb g))) (terms_list K ofN [mb] [w1])) pad1 in
  (vadd M (msm (fst sc) (interleaveM K M (g_G g) (g_Hv g))) (msm (snd sc) (flat_map (dyn_of K M) (map (pts_of K M dec) ms) ++ g_Gb g ++ [g_H g])) = v0 M
   <->
   vadd M (msm (fst sc1) (interleaveM K M (g_G g) (g_Hv g))) (msm (snd sc1) (flat_map (dyn_of K M) (map (pts_of K M dec) [mb]) ++ g_Gb g ++ [g_H g])) = v0 M).
Proof.
  intros K Kok M Mok ofN toN OT enc dec DE g bits cap Hb LG LH HT Hpad EH EGb.
  exact (embedding_sound K Kok M Mok ofN toN OT enc dec DE g bits cap Hb LG LH HT Hpad EH EGb).
Qed.
Print Assumptions C03_embedding_sound.
