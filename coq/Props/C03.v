(** C03 — batch verification: structure theorems about the model of the repaired code (the chunk loop
    is explicit, constant 256).  The "only if" direction for equation failures is probabilistic (a bad
    member survives for at most one value of its weight: C08 + random oracle) and is not a theorem. *)
From Coq Require Import List Arith NArith Bool.
From BP Require Import Base.Field Model.Verifier Model.VerifyTop Proofs.VerifyTopP.
Import ListNotations.

(** the chunks cover the batch exactly, in order, each non-empty and of at most 256 members *)
Theorem C03_chunks_cover : forall (A : Type) (l : list A),
  concat (chunks_of (length l) MAX_BATCH l) = l /\
  Forall (fun ch => length ch <= MAX_BATCH) (chunks_of (length l) MAX_BATCH l) /\
  Forall (fun ch => ch <> []) (chunks_of (length l) MAX_BATCH l).
Proof.
  intros A l. repeat split; [apply chunks_of_concat; unfold MAX_BATCH; auto with arith|apply chunks_of_bound|
                             apply chunks_of_nonempty; unfold MAX_BATCH; auto with arith].
Qed.
Print Assumptions C03_chunks_cover.

Theorem C03_empty_refused : forall (K : Fld) ofN mode ns np nt ms orc,
  ns = 0 \/ np = 0 \/ nt = 0 -> verify_batch K ofN mode ns np nt ms orc = Err.
Proof. exact batch_refuses_empty. Qed.
Print Assumptions C03_empty_refused.

Theorem C03_length_mismatch_refused : forall (K : Fld) ofN mode ns np nt ms orc,
  ns <> np \/ nt <> ns -> verify_batch K ofN mode ns np nt ms orc = Err.
Proof. exact batch_refuses_length_mismatch. Qed.
Print Assumptions C03_length_mismatch_refused.

Theorem C03_disagreement_refused : forall (K : Fld) ofN mode first rest ws z,
  (exists mb, In mb rest /\ (mb_bits K mb <> mb_bits K first \/ mb_T K mb <> mb_T K first \/ mb_Henc K mb <> mb_Henc K first
                             \/ mb_Gbenc K mb <> mb_Gbenc K first)) ->
  fst (verify_chunk K ofN mode (first :: rest) ws z) = Err.
Proof. exact chunk_refuses_disagreement. Qed.
Print Assumptions C03_disagreement_refused.

(** on success a chunk returns exactly one result per member, the i-th belonging to the i-th member *)
Theorem C03_results_aligned : forall (K : Fld) ofN mode ms ws z masks,
  fst (verify_chunk K ofN mode ms ws z) = Ok masks -> masks = map (mask_of K ofN mode) ms.
Proof. exact chunk_results_aligned. Qed.
Print Assumptions C03_results_aligned.
