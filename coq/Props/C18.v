(** C18 — proving and verifying are pure, repeatable and thread-safe.
    In the model every API call is a Gallina function of its arguments (and, for the prover, of the
    oracle outputs): there is no state argument, so "no call observes state left behind by another"
    holds by construction.  The only shared mutable state in the source are two once-initialised
    statics; their logical behaviour under arbitrary schedules is below.  PARTIAL: real schedules and
    memory ordering are explored by the thread/process driver, not proved. *)
From Coq Require Import List Arith NArith Bool.
From BP Require Import Model.Once Proofs.OnceP.
Import ListNotations.

Theorem C18_once_any_schedule : forall c sched s, cell_ok c s ->
  cell_ok c (fst (run c s sched)) /\ Forall (fun v => v = c) (snd (run c s sched)).
Proof. exact once_any_schedule. Qed.
Print Assumptions C18_once_any_schedule.

Theorem C18_once_initialised_stays : forall c v st, fst (do_step c (Init v) st) = Init v.
Proof. exact init_is_final. Qed.
Print Assumptions C18_once_initialised_stays.

Theorem C18_once_progress : forall c s t, cell_ok c s -> exists sched, In c (snd (run c s (sched ++ [Read t]))).
Proof. exact once_progress. Qed.
Print Assumptions C18_once_progress.

(** non-vacuity: a racy schedule of three threads *)
Example C18_ex : snd (run 7%N Uninit [Enter 1; Enter 2; Read 3; Finish 2; Finish 1; Read 2; Read 3; Enter 3; Read 1]) = [7; 7; 7; 7]%N.
Proof. reflexivity. Qed.
