(** C20 — secrets are wiped from heap memory before it is released: the discipline model.
    PARTIAL by nature: the theorems speak about the wrappers written in the source (hand-enumerated in
    Model/Heap.v); the allocator harness observes the compiled code. *)
From Coq Require Import List Arith Bool String.
From BP Require Import Model.Heap Proofs.HeapP.
Import ListNotations.

(** Any path all of whose secret buffers carry a wiping wrapper frees no un-wiped secret. *)
Theorem C20_no_dirty_free : forall bs, disciplined bs -> dirty_frees [] (lives 0 bs) = [].
Proof. exact no_dirty_free. Qed.
Print Assumptions C20_no_dirty_free.

Theorem C20_prover_path : forall m T k seeded, dirty_frees [] (lives 0 (prover_buffers m T k seeded)) = [].
Proof. intros. apply no_dirty_free, prover_disciplined. Qed.
Print Assumptions C20_prover_path.

Theorem C20_recovery_path : forall T k, dirty_frees [] (lives 0 (recover_buffers T k)) = [].
Proof. intros. apply no_dirty_free, recover_disciplined. Qed.
Print Assumptions C20_recovery_path.

Theorem C20_owner_drops : forall m, dirty_frees [] (lives 0 (owner_buffers m)) = [].
Proof. intros. apply no_dirty_free, owner_disciplined. Qed.
Print Assumptions C20_owner_drops.

(** the defect repaired by the fix: commit (known_findings.json, fixed) *)
Theorem C20_unrepaired_nonce_refuted : dirty_frees [] (lives 0 old_nonce_buffers) = [0].
Proof. exact old_nonce_refuted. Qed.
Print Assumptions C20_unrepaired_nonce_refuted.
