(** C20 — secrets are wiped from heap memory before it is released: the discipline model.
    PARTIAL by nature: the theorems speak about the wrappers written in the source (hand-enumerated in
    Model/Heap.v); the allocator harness observes the compiled code. *)
From Coq Require Import List Arith Bool String.
From BP Require Import Model.Heap Proofs.HeapP.
Import ListNotations.

(** Any path all of whose secret buffers carry a wiping wrapper frees no un-wiped secret. *)
Theorem C20_no_dirty_free : forall bs, disciplined bs -> dirty_frees [] (lives 0 bs) = [].
Proof. exact no_dirty_free. Qed.
Print Assumptions C20_no_dirty_free.

Theorem C20_prover_path : forall m T k seeded, dirty_frees [] (lives 0 (prover_buffers m T k seeded)) = [].
Proof. intros. apply no_dirty_free, prover_disciplined. Qed.
Print Assumptions C20_prover_path.

Theorem C20_recovery_path : forall T k, dirty_frees [] (lives 0 (recover_buffers T k)) = [].
Proof. intros. apply no_dirty_free, recover_disciplined. Qed.
Print Assumptions C20_recovery_path.

Theorem C20_owner_drops : forall m, dirty_frees [] (lives 0 (owner_buffers m)) = [].
Proof. intros. apply no_dirty_free, owner_disciplined. Qed.
Print Assumptions C20_owner_drops.

(** the defect repaired by the fix: commit (known_findings.json, fixed) *)
Theorem C20_unrepaired_nonce_refuted : dirty_frees [] (lives 0 old_nonce_buffers) = [0].
Proof. exact old_nonce_refuted. Qed.
Print Assumptions C20_unrepaired_nonce_refuted.

(** the same discipline under EARLY RETURNS (Model/HeapExit.v): the path may stop after any number of steps
    (error return, unwinding) and everything still alive is dropped; if sensitive data is only ever written
    into buffers that already sit inside a wiping wrapper, no such stop frees sensitive data *)
From BP Require Import Model.HeapExit Proofs.HeapExitP.
Theorem C20_early_exit_clean : forall prog, disciplined_prog prog [] = true -> forall n, dirty [] (run_until n prog) = [].
Proof. exact early_exit_clean. Qed.
Print Assumptions C20_early_exit_clean.

(** the prover's path (witness bytes, bit vectors, alpha, per-round d_l / d_r, d, eta), any number of
    commitments and rounds, stopped anywhere *)
Theorem C20_prover_early_exit_clean : forall m k n, dirty [] (run_until n (prover_program m k)) = [].
Proof. exact prover_early_exit_clean. Qed.
Print Assumptions C20_prover_early_exit_clean.

(** wrapping the bit vectors only after the decomposition loop (seeded change C20c) is refuted: stopping
    inside the loop frees buffer 1 dirty — although complete runs are clean *)
Theorem C20_late_wrap_refuted : forall m, dirty [] (run_until 3 (late_wrap_program (S m))) = [1].
Proof. exact late_wrap_refuted. Qed.
Print Assumptions C20_late_wrap_refuted.
