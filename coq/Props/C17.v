(** C17 — Constructors accept exactly the documented parameter space.
    This file contains only statements; every proof is [exact <lemma>]. *)
From Coq Require Import NArith List Bool.
From BP Require Import Model.Ctor Proofs.CtorP.
Import ListNotations.
Open Scope N_scope.

Theorem C17_is_pow2_iff : forall x, is_pow2 x = true <-> exists a, x = 2 ^ a.
Proof. exact is_pow2_iff. Qed.
Print Assumptions C17_is_pow2_iff.

Theorem C17_params_init_ok_iff : forall bits cap,
  (exists st, params_init bits cap = Some st) <->
  ((exists a, bits = 2 ^ a) /\ bits <= 64 /\ (exists b, cap = 2 ^ b)).
Proof. exact params_init_ok_iff. Qed.
Print Assumptions C17_params_init_ok_iff.

Theorem C17_params_init_stores : forall bits cap st, params_init bits cap = Some st -> st = (bits, cap).
Proof. exact params_init_stores. Qed.
Print Assumptions C17_params_init_stores.

Theorem C17_statement_init_ok_iff : forall cap count pcount seed,
  (exists st, statement_init cap count pcount seed = Some st) <->
  ((exists a, count = 2 ^ a) /\ pcount = count /\ count <= cap /\ (seed = true -> count = 1)).
Proof. exact statement_init_ok_iff. Qed.
Print Assumptions C17_statement_init_ok_iff.

Theorem C17_statement_init_stores : forall cap count pcount seed st,
  statement_init cap count pcount seed = Some st -> st = (count, pcount, seed).
Proof. exact statement_init_stores. Qed.
Print Assumptions C17_statement_init_stores.

Theorem C17_witness_init_ok_iff : forall shape,
  (exists st, witness_init shape = Some st) <->
  (exists c0 rest, shape = c0 :: rest /\ 1 <= c0 <= 6 /\ Forall (fun c => c = c0) rest).
Proof. exact witness_init_ok_iff. Qed.
Print Assumptions C17_witness_init_ok_iff.

Theorem C17_witness_init_stores : forall shape n e,
  witness_init shape = Some (n, e) -> n = N.of_nat (length shape) /\ e = hd 0 shape.
Proof. exact witness_init_stores. Qed.
Print Assumptions C17_witness_init_stores.

Theorem C17_degree_of_u8_iff : forall x, (exists d, degree_of_u8 x = Some d) <-> 1 <= x <= 6.
Proof. exact degree_of_u8_iff. Qed.
Print Assumptions C17_degree_of_u8_iff.

Theorem C17_degree_of_usize_iff : forall x, (exists d, degree_of_usize x = Some d) <-> 1 <= x <= 6.
Proof. exact degree_of_usize_iff. Qed.
Print Assumptions C17_degree_of_usize_iff.

Theorem C17_degree_value_preserved : forall x d, degree_of_usize x = Some d -> d = x.
Proof. exact degree_of_usize_val. Qed.
Print Assumptions C17_degree_value_preserved.

Theorem C17_mask_assign_ok_iff : forall deg len, 1 <= deg <= 6 -> (mask_assign deg len = true <-> len = deg).
Proof. exact mask_assign_ok_iff. Qed.
Print Assumptions C17_mask_assign_ok_iff.

Theorem C17_commit_ok_iff : forall deg len, commit_ok deg len = true <-> 1 <= len <= deg.
Proof. exact commit_ok_iff. Qed.
Print Assumptions C17_commit_ok_iff.

(** Non-vacuity: the accepting side of each equivalence is inhabited. *)
Example C17_ex_params : params_init 64 32 = Some (64, 32). Proof. reflexivity. Qed.
Example C17_ex_statement : statement_init 8 4 4 false = Some (4, 4, false). Proof. reflexivity. Qed.
Example C17_ex_statement_seed : statement_init 8 1 1 true = Some (1, 1, true). Proof. reflexivity. Qed.
Example C17_ex_witness : witness_init [3; 3; 3; 3] = Some (4, 3). Proof. reflexivity. Qed.
