(** C07 — minimum-value promises.  "Accepted only under equal promise vectors" is deterministic up to the
    transcript log (below) and probabilistic after it (random oracle + C02): not a theorem. *)
From Coq Require Import List Arith NArith Bool.
From BP Require Import Base.Field Model.Codec Model.Transcript Model.VerifyTop Model.Prover Proofs.TranscriptP Proofs.GuardsP.
Import ListNotations.
Local Close Scope N_scope.

(** an absent promise is absorbed as zero *)
Theorem C07_promise_none_is_zero : promise_value None = promise_value (Some 0%N).
Proof. reflexivity. Qed.
Print Assumptions C07_promise_none_is_zero.

(** equal logs force value-wise equal promise vectors (and everything else): a substituted promise
    other than None <-> Some 0 changes every challenge's oracle input *)
Theorem C07_promise_change_changes_log : forall s s' p p' l,
  List.length (p_li p) = List.length (p_ri p) -> List.length (p_li p') = List.length (p_ri p') ->
  verifier_ops s p = Some l -> verifier_ops s' p' = Some l ->
  map promise_value (ts_promises s) = map promise_value (ts_promises s').
Proof. intros s s' p p' l H1 H2 E1 E2. destruct (verifier_ops_injective s s' p p' l H1 H2 E1 E2) as ((_ & _ & _ & _ & _ & H) & _). exact H. Qed.
Print Assumptions C07_promise_change_changes_log.

(** the verifier refuses exactly the promises that do not fit: bits < 64 and promise >= 2^bits *)
Theorem C07_promise_fits_iff : forall bits v, promise_fits bits (Some v) = false <-> (bits < 64 /\ (2 ^ N.of_nat bits <= v)%N).
Proof. exact promise_fits_iff. Qed.
Print Assumptions C07_promise_fits_iff.

Theorem C07_oversized_promise_refused : forall (K : Fld) (first : member K) rest,
  (exists mb p, In mb (first :: rest) /\ In p (mb_promises K mb) /\ promise_fits (mb_bits K first) p = false) ->
  consistency K (first :: rest) = None.
Proof. exact oversized_promise_refused. Qed.
Print Assumptions C07_oversized_promise_refused.

(** the prover decomposes value - promise *)
Theorem C07_prover_offsets_by_promise : forall v p, offset_value v (Some p) = (v - p)%N.
Proof. reflexivity. Qed.
Print Assumptions C07_prover_offsets_by_promise.
