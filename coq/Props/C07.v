(** C07 — minimum-value promises.  "Accepted only under equal promise vectors" is deterministic up to the
    transcript log (below) and probabilistic after it (random oracle + C02): not a theorem. *)
From Coq Require Import List Arith NArith Bool.
From BP Require Import Base.Field Model.Codec Model.Transcript Model.VerifyTop Model.Prover Proofs.TranscriptP Proofs.GuardsP.
Import ListNotations.
Local Close Scope N_scope.

(** an absent promise is absorbed as zero *)
Theorem C07_promise_none_is_zero : promise_value None = promise_value (Some 0%N).
Proof. reflexivity. Qed.
Print Assumptions C07_promise_none_is_zero.

(** equal logs force value-wise equal promise vectors (and everything else): a substituted promise
    other than None <-> Some 0 changes every challenge's oracle input *)
Theorem C07_promise_change_changes_log : forall s s' p p' l,
  List.length (p_li p) = List.length (p_ri p) -> List.length (p_li p') = List.length (p_ri p') ->
  verifier_ops s p = Some l -> verifier_ops s' p' = Some l ->
  map promise_value (ts_promises s) = map promise_value (ts_promises s').
Proof. intros s s' p p' l H1 H2 E1 E2. destruct (verifier_ops_injective s s' p p' l H1 H2 E1 E2) as ((_ & _ & _ & _ & _ & H) & _). exact H. Qed.
Print Assumptions C07_promise_change_changes_log.

(** the verifier refuses exactly the promises that do not fit: bits < 64 and promise >= 2^bits *)
Theorem C07_promise_fits_iff : forall bits v, promise_fits bits (Some v) = false <-> (bits < 64 /\ (2 ^ N.of_nat bits <= v)%N).
Proof. exact promise_fits_iff. Qed.
Print Assumptions C07_promise_fits_iff.

Theorem C07_oversized_promise_refused : forall (K : Fld) (first : member K) rest,
  (exists mb p, In mb (first :: rest) /\ In p (mb_promises K mb) /\ promise_fits (mb_bits K first) p = false) ->
  consistency K (first :: rest) = None.
Proof. exact oversized_promise_refused. Qed.
Print Assumptions C07_oversized_promise_refused.

(** the prover decomposes value - promise *)
Theorem C07_prover_offsets_by_promise : forall v p, offset_value v (Some p) = (v - p)%N.
Proof. reflexivity. Qed.
Print Assumptions C07_prover_offsets_by_promise.

(** a promise enters the algebraic check only through V_j - p_j H: raising promise and committed value by the
    same d is invisible to the textbook point P_0 (the transcript is what tells the statements apart) *)
From BP Require Import Base.Field Model.Spec Model.RangeSpec Proofs.PromiseP.
Theorem C07_promise_is_commitment_shift : forall (K : Fld), FldOk K -> forall (M : Mod K), ModOk K M -> forall (H V : M) (p d : N),
  shifted K M H (vadd M V (smul M (fofN K d) H)) (Some (p + d)%N) = shifted K M H V (Some p).
Proof. exact shifted_joint_shift. Qed.
Print Assumptions C07_promise_is_commitment_shift.
Theorem C07_P0_depends_on_shifted_commitments : forall (K : Fld) (M : Mod K) bits (H : M) (G Hs Vs Vs' : list M) (promises promises' : list (option N)) (A : M) (y z : K),
  length promises = length promises' ->
  map2 (shifted K M H) Vs promises = map2 (shifted K M H) Vs' promises' ->
  P0 K M bits H G Hs Vs promises A y z = P0 K M bits H G Hs Vs' promises' A y z.
Proof. exact P0_depends_on_shifted_commitments. Qed.
Print Assumptions C07_P0_depends_on_shifted_commitments.

(** The algebra behind the promise-substitution attack of the check (tools/props/c07.py): with the commitments and the proof fixed, the promises
    enter the verification equation only through the ONE scalar  sum_j y^(N+1) z^(2(j+1)) p_j  on the value generator.  Two promise vectors with
    the same weighted sum give the same two sides of the textbook equation for EVERY proof at given challenges — the algebraic check cannot tell
    them apart; only the dependence of the challenges on the promises (C07_promise_change_changes_log) does.  Binding the promises into the
    transcript is necessary. *)
From BP Require Import Proofs.PromiseSumP.
Theorem C07_promises_enter_only_through_their_weighted_sum : forall (K : Fld), FldOk K -> forall (M : Mod K), ModOk K M ->
  forall bits (H : M) (Gb G Hs Vs : list M) (ps ps' : list (option N)) (pf : rproof K M) (y z e : K) (es : list K),
  length ps = length Vs -> length ps' = length Vs ->
  wsum K (v_weights K bits (length Vs) y z) ps = wsum K (v_weights K bits (length Vs) y z) ps' ->
  spec_sides K M bits H Gb G Hs Vs ps pf y z es e = spec_sides K M bits H Gb G Hs Vs ps' pf y z es e.
Proof. exact sides_promises_only_through_weighted_sum. Qed.
Print Assumptions C07_promises_enter_only_through_their_weighted_sum.
