(** C07 - placeholder until the promise theorems land. *)
From Coq Require Import List NArith.
From BP Require Import Model.Transcript.
Theorem C07_promise_none_is_zero : promise_value None = promise_value (Some 0%N).
Proof. reflexivity. Qed.
Print Assumptions C07_promise_none_is_zero.
