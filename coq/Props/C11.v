(** C11 — generators: labels are injective (distinct inputs reach the hash), the table interleaves the two
    vectors, smaller parameter sets are prefixes.  Distinctness of the hash OUTPUTS is checked on the
    complete finite domain by computation against the implementation (4103 points) on every run; the
    Gallina SHAKE256 / SHA3-512 / Ristretto map are models of dependencies (validated, not verified). *)
From Coq Require Import List Arith NArith Bool.
From BP Require Import Model.Codec Model.Gens Proofs.GensP.
Import ListNotations.
Open Scope N_scope.

Theorem C11_chain_input_injective : forall k k' i i', i < 2 ^ 32 -> i' < 2 ^ 32 -> chain_input k i = chain_input k' i' -> k = k' /\ i = i'.
Proof. exact chain_input_injective. Qed.
Print Assumptions C11_chain_input_injective.

Theorem C11_mask_label_injective : forall k k', mask_label k = mask_label k' -> k = k'.
Proof. exact mask_label_injective. Qed.
Print Assumptions C11_mask_label_injective.

Theorem C11_chain_vs_mask_label : forall k i j, chain_input k i <> mask_label j.
Proof. exact chain_vs_mask_label. Qed.
Print Assumptions C11_chain_vs_mask_label.

(** table order: entry 2i is G_i, entry 2i+1 is H_i *)
Theorem C11_table_interleaved : forall (a b : list N) i, List.length a = List.length b -> (i < List.length a)%nat ->
  nth (2 * i) (interleaveN a b) 0 = nth i a 0 /\ nth (2 * i + 1) (interleaveN a b) 0 = nth i b 0.
Proof. exact interleaveN_nth. Qed.
Print Assumptions C11_table_interleaved.

Theorem C11_chain_prefix : forall n n' bs, (n <= n')%nat -> split64 n bs = firstn n (split64 n' bs).
Proof. exact split64_firstn. Qed.
Print Assumptions C11_chain_prefix.

Theorem C11_aggregated_iter_length : forall vecs n m, Forall (fun v => (n <= List.length v)%nat) vecs -> (m <= List.length vecs)%nat ->
  List.length (aggregated vecs n m) = (m * n)%nat.
Proof. exact aggregated_length. Qed.
Print Assumptions C11_aggregated_iter_length.

(** THE "DISTINCT, NON-IDENTITY" HALF AS A THEOREM on the derivation: all 4103 generator encodings of the largest parameter set
    (64 bits x 32 parties, six blinding generators, the value generator) that Model/Gens.v derives — SHAKE256 chains and SHA3-512
    labels through the Ristretto one-way map, computed by the Gallina implementations of Crypto/ — are pairwise distinct and none is
    the identity encoding.  Finite domain, proved by computation (Crypto/GenTab*.v evaluate each chain once against the
    implementation's bytes; the quadratic comparison runs on those literals); every smaller parameter set is a prefix view
    (C11_chain_prefix, checked on the implementation at run time).  The tie to the code is the byte equality the check re-establishes
    on every run. *)
From BP Require Import Proofs.GensDistinctP.
Theorem C11_generators_distinct :
  NoDup all_generators /\ Forall (fun p => p <> 0) all_generators /\ List.length all_generators = 4103%nat.
Proof. exact generators_distinct. Qed.
Print Assumptions C11_generators_distinct.
