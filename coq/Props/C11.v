(** C11 - placeholder until the label-injectivity and distinctness theorems land. *)
From Coq Require Import List NArith.
From BP Require Import Model.Gens.
Theorem C11_kind_bytes_differ : kind_byte KG <> kind_byte KH.
Proof. discriminate. Qed.
Print Assumptions C11_kind_bytes_differ.
