(** C15 — Proof encoding is a canonical bijection with an exact acceptance set.
    Statements only; proofs are in Proofs/CodecP.v.  Byte strings are lists of [N] with every element
    below 256 ([bytes_ok]); [wf_proof] is the set of proofs with tag d in 1..6, d canonical scalars in d1,
    canonical r1 and s1, 32-byte point encodings, and k >= 1 pairs (L, R). *)
From Coq Require Import NArith List Bool.
From BP Require Import Model.Codec Proofs.CodecP.
Import ListNotations.
Open Scope N_scope.

(** Decoding accepts exactly the encodings of well-formed proofs: tag byte d in 1..6 followed by
    5 + d + 2k 32-byte elements, k >= 1, every scalar element canonically reduced. *)
Theorem C15_from_bytes_accepts_iff : forall bs, bytes_ok bs = true ->
  ((exists p, from_bytes bs = Some p) <-> (exists p, wf_proof p /\ bs = to_bytes p)).
Proof. exact from_bytes_accepts_iff. Qed.
Print Assumptions C15_from_bytes_accepts_iff.

(** Whenever decoding succeeds, re-encoding returns the identical bytes (and the result is well formed). *)
Theorem C15_decode_then_encode : forall bs p, bytes_ok bs = true -> from_bytes bs = Some p -> to_bytes p = bs /\ wf_proof p.
Proof. exact decode_then_encode. Qed.
Print Assumptions C15_decode_then_encode.

(** Encoding then decoding a well-formed proof returns an equal proof. *)
Theorem C15_encode_then_decode : forall p, wf_proof p -> from_bytes (to_bytes p) = Some p.
Proof. exact encode_then_decode. Qed.
Print Assumptions C15_encode_then_decode.

(** Encoded length is 1 + 32 * (5 + d + 2k). *)
Theorem C15_encoded_length : forall p, wf_proof p ->
  length (to_bytes p) = (1 + 32 * (5 + N.to_nat (p_tag p) + 2 * length (p_li p)))%nat.
Proof. exact encoded_length. Qed.
Print Assumptions C15_encoded_length.

Theorem C15_to_bytes_injective : forall p q, wf_proof p -> wf_proof q -> to_bytes p = to_bytes q -> p = q.
Proof. exact to_bytes_injective. Qed.
Print Assumptions C15_to_bytes_injective.

Theorem C15_from_bytes_injective : forall bs bs' p, bytes_ok bs = true -> bytes_ok bs' = true ->
  from_bytes bs = Some p -> from_bytes bs' = Some p -> bs = bs'.
Proof. exact from_bytes_injective. Qed.
Print Assumptions C15_from_bytes_injective.

(** Refutation of the unrestricted round trip: a proof with no folding rounds — which the prover
    emits for bit_length * aggregation = 1 (see Props/C01 and the known finding) — never decodes back. *)
Theorem C15_roundtrip_refuted_zero_rounds : forall p, p_li p = [] -> from_bytes (to_bytes p) <> Some p.
Proof. exact zero_rounds_refused. Qed.
Print Assumptions C15_roundtrip_refuted_zero_rounds.

(** Non-vacuity: a concrete well-formed proof (d = 2, k = 1) round-trips, by computation. *)
Example C15_ex_roundtrip :
  let p := mkProof 2 [5; Lorder - 1] 77 (2 ^ 256 - 1) 0 1 2 [9] [10] in
  from_bytes (to_bytes p) = Some p /\ length (to_bytes p) = 289%nat.
Proof. vm_compute. split; reflexivity. Qed.
