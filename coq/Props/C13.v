(** C13 — every blinding nonce in a proof is fresh.  Equality of VALUES read from distinct sources has
    probability 1/l (Merlin / Blake2b as PRFs) and is TRUSTED; what is proved is that no two slots read
    the same source, and that the seed-derivation key is injective. *)
From Coq Require Import List Arith NArith Bool String.
From BP Require Import Base.Field Model.Codec Model.Verifier Model.Prover Model.Nonce Proofs.NonceP Proofs.CompleteP Proofs.SeedP.
Import ListNotations.

(** all 2T*rounds + 3T + 2 slots of a proof (alpha_k, dL_jk, dR_jk, r, s, d_k, eta_k) read pairwise distinct
    sources: distinct (RNG instance, draw index) pairs without a seed; distinct (label, j, k) triples —
    and for r, s still two distinct RNG draws — with a seed *)
Theorem C13_slots_have_distinct_sources : forall seeded T rounds,
  NoDup (map (source_of seeded T rounds) (all_slots T rounds)).
Proof. exact slots_have_distinct_sources. Qed.
Print Assumptions C13_slots_have_distinct_sources.

Theorem C13_final_masks_from_rng : forall seeded T rounds,
  source_of seeded T rounds SR = FromRng (1 + rounds) 0 /\ source_of seeded T rounds SS = FromRng (1 + rounds) 1.
Proof. exact final_masks_from_rng. Qed.
Print Assumptions C13_final_masks_from_rng.

Theorem C13_seeded_slots_documented : forall T rounds j k,
  source_of true T rounds (SAlpha k) = FromSeed NAlpha None k /\ source_of true T rounds (SdL j k) = FromSeed NdL (Some j) k /\
  source_of true T rounds (SdR j k) = FromSeed NdR (Some j) k /\ source_of true T rounds (SD k) = FromSeed Nd None k /\
  source_of true T rounds (SEta k) = FromSeed NEta None k.
Proof. exact seeded_slots_documented. Qed.
Print Assumptions C13_seeded_slots_documented.

(** the Blake2b key 0x00 || seed || ['j' || LE32 j] || ['k' || LE32 k] determines seed, j and k *)
Theorem C13_nonce_key_injective : forall seed seed' j j' k k',
  (seed < 2 ^ 256)%N -> (seed' < 2 ^ 256)%N -> idx_ok j -> idx_ok j' -> idx_ok k -> idx_ok k' ->
  nonce_key seed j k = nonce_key seed' j' k' -> seed = seed' /\ j = j' /\ k = k'.
Proof. exact nonce_key_injective. Qed.
Print Assumptions C13_nonce_key_injective.

Theorem C13_persona_injective : forall a b, nlabel_string a = nlabel_string b -> a = b.
Proof. exact nlabel_string_injective. Qed.
Print Assumptions C13_persona_injective.

Example C13_ex_slot_count : List.length (all_slots 2 3) = 20%nat. Proof. reflexivity. Qed.

(** the assignment of sources to slots always yields nonces of the shape the completeness theorem
    (C01_completeness) and the recovery theorem (C09) take as premise: T components each, one pair of
    vectors per round — with or without a seed, whatever the oracles return *)
Theorem C13_assigned_nonces_well_formed : forall (K : Fld) (seed_nonce : nlabel -> option nat -> nat -> K) (rng : nat -> list K) seeded T rounds,
  wf_nonces K T rounds (assign K seed_nonce rng seeded T rounds).
Proof. exact assign_wf. Qed.
Print Assumptions C13_assigned_nonces_well_formed.

(** every RNG-sourced nonce goes through the reject-zero loop: it is non-zero *)
From BP Require Import Model.RejectZero Proofs.RejectZeroP.
Theorem C13_rng_nonces_nonzero : forall (K : Fld), FldOk K -> forall (draws : list K) n, Forall (fun d => d <> f0 K) (take_nonzero K n draws).
Proof. exact take_nonzero_nonzero. Qed.
Print Assumptions C13_rng_nonces_nonzero.

(** one transcript-RNG instance per challenge: the prover builds exactly 3 + rounds of them (wrapper set-up, y/z, one per folding round, final e),
    the verifier one more (the proof's word for the weight transcript).  The check counts the instances in the instrumented merlin log against
    this number and, under a stuck caller's generator, requires each to be keyed with exactly that generator's bytes *)
From BP Require Import Model.Codec Model.Transcript Proofs.RngCountP.
Theorem C13_prover_builds_one_rng_instance_per_challenge : forall s seeded p w ops,
  prover_ops s seeded p w = Some ops -> count_rng ops = (3 + Nat.min (List.length (p_li p)) (List.length (p_ri p)))%nat.
Proof. exact prover_rng_instances. Qed.
Print Assumptions C13_prover_builds_one_rng_instance_per_challenge.

Theorem C13_verifier_builds_one_rng_instance_per_challenge_and_one_for_the_weight : forall s p ops,
  verifier_ops s p = Some ops -> count_rng ops = (4 + Nat.min (List.length (p_li p)) (List.length (p_ri p)))%nat.
Proof. exact verifier_rng_instances. Qed.
Print Assumptions C13_verifier_builds_one_rng_instance_per_challenge_and_one_for_the_weight.
