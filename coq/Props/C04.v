(** C04 — Fiat-Shamir binding: each challenge depends on everything before it.
    A transcript is the list of operations applied to it; Merlin/STROBE is an oracle of that list
    (TRUSTED: distinct lists give independent outputs).  What is proved is what the code is responsible
    for: which data reach the oracle, in which order and framing.  Statements only. *)
From Coq Require Import List Arith NArith Bool.
From BP Require Import Model.Codec Model.Transcript Model.Nonce Proofs.TranscriptP Proofs.SameLogP Crypto.Strobe Proofs.StrobeP Model.MerlinOps Proofs.MerlinOpsP.
Import ListNotations.
Open Scope N_scope.

(** Whenever the verifier gets through the transcript phase, its operation list is the pure list. *)
Theorem C04_verifier_ops_shape : forall s p x, verifier_ops s p = Some x -> x = verifier_ops_pure s p.
Proof. exact verifier_ops_some. Qed.
Print Assumptions C04_verifier_ops_shape.

(** Equal operation lists force equal statement data — bit length, extension degree, H, every Gb_k,
    every commitment (hence the aggregation factor and the order), every promise up to None = Some 0 —
    and equal proof elements A, every L_j, every R_j, A1, B, r1, s1, every d1_k.  Contrapositive: changing
    any single absorbed datum changes the oracle input of the first challenge drawn after it. *)
Theorem C04_log_injective : forall s s' p p' l,
  List.length (p_li p) = List.length (p_ri p) -> List.length (p_li p') = List.length (p_ri p') ->
  verifier_ops s p = Some l -> verifier_ops s' p' = Some l ->
  tstmt_equiv s s' /\ p_a p = p_a p' /\ p_li p = p_li p' /\ p_ri p = p_ri p' /\ p_a1 p = p_a1 p' /\ p_b p = p_b p' /\
  p_r1 p = p_r1 p' /\ p_s1 p = p_s1 p' /\ p_d1 p = p_d1 p'.
Proof. exact verifier_ops_injective. Qed.
Print Assumptions C04_log_injective.

(** The log before (y, z) — statement, parameters, A — is a prefix of the whole log: every later
    challenge's oracle input contains it. *)
Theorem C04_first_challenge_prefix : forall s p, exists rest, verifier_ops_pure s p = log_yz s p ++ rest.
Proof. exact log_yz_prefix_of_all. Qed.
Print Assumptions C04_first_challenge_prefix.

(** Identity points are refused wherever a point is absorbed. *)
Theorem C04_identity_rejected :
  (forall s w, ts_Henc s = 0 -> ops_new s w = None) /\ (forall w, ops_yz 0 w = None) /\
  (forall r w, ops_round 0 r w = None) /\ (forall l w, ops_round l 0 w = None) /\
  (forall b w, ops_final 0 b w = None) /\ (forall a1 w, ops_final a1 0 w = None).
Proof.
  split; [exact identity_rejected_H|]. split; [exact identity_rejected_A|]. split; [exact identity_rejected_round_L|].
  split; [exact identity_rejected_round_R|]. split; [exact identity_rejected_final_A1|exact identity_rejected_final_B].
Qed.
Print Assumptions C04_identity_rejected.

(** Non-vacuity: a concrete statement and proof get through the transcript phase. *)
(** prover and verifier derive every challenge from the same input: restricted to the operations that
    determine a challenge (appends and earlier challenges; forking a transcript RNG and drawing from it do
    not touch the state), the prover's operation list — for every witness, with or without a seed — is
    the verifier's up to the final challenge; the verifier then only adds the responses for the batch weight *)
Theorem C04_prover_verifier_same_challenge_inputs : forall s seeded p w,
  oview (Nonce.prover_ops s seeded p w) =
  oview (osome_app (ops_new s None) (osome_app (ops_yz (p_a p) None)
          (osome_app (ops_rounds (combine (p_li p) (p_ri p)) None) (ops_final (p_a1 p) (p_b p) None)))).
Proof. exact prover_verifier_same_challenge_inputs. Qed.
Print Assumptions C04_prover_verifier_same_challenge_inputs.

Theorem C04_verifier_ops_split : forall s p,
  verifier_ops s p = osome_app (osome_app (ops_new s None) (osome_app (ops_yz (p_a p) None)
          (osome_app (ops_rounds (combine (p_li p) (p_ri p)) None) (ops_final (p_a1 p) (p_b p) None))))
          (Some (ops_verifier_rng (p_r1 p) (p_s1 p) (p_d1 p))).
Proof. exact verifier_ops_split. Qed.
Print Assumptions C04_verifier_ops_split.

(** an identity point stops the prover exactly when it stops the verifier *)
Theorem C04_prover_errs_iff_verifier_errs : forall s seeded p w, Nonce.prover_ops s seeded p w = None <-> verifier_ops s p = None.
Proof. exact prover_errs_iff_verifier_errs. Qed.
Print Assumptions C04_prover_errs_iff_verifier_errs.

(** a challenge is squeezed after ONE meta-AD operation over [label ++ LE32(output length)] on the state left by everything absorbed before
    (Gallina STROBE-128 / Merlin, Crypto/Strobe.v; replayed against the real merlin's log by this check) *)
Theorem C04_merlin_challenge_framed : forall label n s, t_challenge label n s = prf n (meta_ad (label ++ le32 n) false s).
Proof. exact t_challenge_framed. Qed.
Print Assumptions C04_merlin_challenge_framed.

Theorem C04_merlin_rekey_framed : forall label w s, r_rekey label w s = key w (meta_ad (label ++ le32 (List.length w)) false s).
Proof. exact r_rekey_framed. Qed.
Print Assumptions C04_merlin_rekey_framed.

(** the model's operation lists interpreted by the Gallina Merlin (Model/MerlinOps.run_ops; compared with the real merlin's challenge bytes by this check):
    the challenges handed out while a prefix of the operations was applied do not depend on what is applied afterwards, a challenge is squeezed from the
    state reached by exactly the operations before it, and the RNG operations (which work on a clone) are invisible to the transcript *)
Theorem C04_challenges_of_prefix : forall s a b, exists later, snd (run_ops s (a ++ b)) = snd (run_ops s a) ++ later.
Proof. exact challenges_of_prefix. Qed.
Print Assumptions C04_challenges_of_prefix.

Theorem C04_challenge_after_prefix : forall s a l n,
  snd (run_ops s (a ++ [OChal l n])) = snd (run_ops s a) ++ [snd (t_challenge (label_bytes l) n (fst (run_ops s a)))].
Proof. exact challenge_after_prefix. Qed.
Print Assumptions C04_challenge_after_prefix.

Theorem C04_rng_operations_leave_the_transcript : forall s ops, run_ops s (filter (fun o => negb (is_rng_op o)) ops) = run_ops s ops.
Proof. exact rng_ops_invisible. Qed.
Print Assumptions C04_rng_operations_leave_the_transcript.


Example C04_ex : exists l, verifier_ops (mkTstmt 8 1 5 [6] [7; 8] [None; Some 3]) (mkProof 1 [9] 10 11 12 13 14 [15] [16]) = Some l.
Proof. eexists. reflexivity. Qed.
