(** C04 - placeholder until the transcript theorems land. *)
From Coq Require Import List NArith.
From BP Require Import Model.Transcript.
Theorem C04_placeholder : label_code LDomSep = 0%N.
Proof. reflexivity. Qed.
Print Assumptions C04_placeholder.
