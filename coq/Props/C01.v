(** C01 — completeness.
    [C01_completeness] is the property for the model: code-shaped prover against code-shaped verifier,
    every bit length, aggregation, capacity, extension degree, witness, nonce assignment and weight.
    It is the composition of: completeness of the textbook weighted-inner-product argument for every
    number of rounds ([C01_wip_complete]); the prover's A through the padded table is the textbook one
    ([C01_commit_A_textbook]); the range reduction ([C01_range_reduction]); the refinement of the
    code-shaped folding loop to the textbook prover (Proofs/ProverRefP.v); and C02's verifier equivalence.
    The model is tied to the implementation by the coordinate-level correspondence run on every check. *)
From Coq Require Import List Arith NArith Bool QArith Qcanon Lia.
From BP Require Import Base.Field Model.Spec Model.RangeSpec Model.Verifier Model.Prover Proofs.WipP Proofs.GuardsP
     Proofs.VerifierEquivP Proofs.RangeRedP Proofs.CompleteP Base.QcInst.
Local Open Scope nat_scope.
Import ListNotations.

(** completeness of the whole argument, any number of rounds *)
Theorem C01_wip_complete : forall (K : Fld), FldOk K -> forall (M : Mod K), ModOk K M -> forall (H : M) (Gb : list M)
  y, y <> f0 K -> forall rs (a b alpha : list K) (G Hs : list M) e r s d eta,
  let k := length rs in
  length a = Nat.pow 2 k -> length b = Nat.pow 2 k -> length G = Nat.pow 2 k -> length Hs = Nat.pow 2 k ->
  Forall (wf_round K (length alpha)) rs -> length d = length alpha -> length eta = length alpha ->
  let '(af, bf, alphaf) := final_state K y rs a b alpha in
  let '(Pf, Gf, Hf) := verifier_fold K M y (map r_e rs) (prover_msgs K M H Gb y rs a b alpha G Hs) (Com K M H Gb y a b alpha G Hs) G Hs in
  let a0 := hd (f0 K) af in let b0 := hd (f0 K) bf in let G0 := hd (v0 M) Gf in let H0 := hd (v0 M) Hf in
  final_check K M H Gb y e Pf (final_A1 K M H Gb y a0 b0 r s d G0 H0) (final_B K M H Gb y r s eta)
     (fadd K r (fmul K a0 e)) (fadd K s (fmul K b0 e)) (final_d1 K e alphaf d eta) G0 H0.
Proof. intros K Kok M Mok H Gb. exact (wip_complete K Kok M Mok H Gb). Qed.
Print Assumptions C01_wip_complete.

(** the prover's vector commitment through the interleaved, zero-padded table is the textbook one *)
Theorem C01_commit_A_textbook : forall (K : Fld), FldOk K -> forall (M : Mod K), ModOk K M ->
  forall (g : gens K M) aL aR alpha padding,
  length aL = length aR -> length aL <= length (g_G g) -> length aL <= length (g_Hv g) ->
  commit_A K M g aL aR alpha padding = vadd M (vadd M (msm aL (g_G g)) (msm aR (g_Hv g))) (msm alpha (g_Gb g)).
Proof. exact commit_A_capacity_independent. Qed.
Print Assumptions C01_commit_A_textbook.

(** range reduction (paper Fig. 3 with promises and T blinding generators): for a valid witness the
    textbook P_0 is the weighted-inner-product commitment to the shifted bit vectors *)
Theorem C01_range_reduction : forall (K : Fld), FldOk K -> forall (M : Mod K), ModOk K M -> forall (g : gens K M)
  bits (values : list N) (promises : list (option N)) (blindings : list (list K)) (alpha : list K) (G Hs : list M) (y z : K),
  let m := length values in
  let aL := a_L K bits values promises in
  let aR := map (fun x => fsub K x (f1 K)) aL in
  length promises = m -> length blindings = m -> length G = m * bits -> length Hs = m * bits ->
  Forall (fun r => length r = length alpha) blindings ->
  Forall (fun vp => match snd vp with Some mv => (mv <= fst vp)%N | None => True end) (combine values promises) ->
  Forall (fun vp => (offset_value (fst vp) (snd vp) < 2 ^ N.of_nat bits)%N) (combine values promises) ->
  P0 K M bits (g_H g) G Hs (map (fun vr => commit K M g (fofN K (fst vr)) (snd vr)) (combine values blindings)) promises
     (vadd M (vadd M (msm aL G) (msm aR Hs)) (msm alpha (g_Gb g))) y z
  = Com K M (g_H g) (g_Gb g) y (aL_hat K z aL) (aR_hat K bits m y z aR) (alpha_hat K (v_weights K bits m y z) blindings alpha) G Hs.
Proof. exact range_reduction. Qed.
Print Assumptions C01_range_reduction.

(** THE PROPERTY: for every bit length >= 1, aggregation m = 2^a <= capacity, extension degree T = |Gb|,
    every valid witness (promise <= value, value - promise < 2^bits, T blinding factors each), every
    well-shaped nonce assignment, all challenges non-zero and y <> 1, and every batch weight w, the
    code-shaped prover's output makes the code-shaped verifier's multiscalar product vanish. *)
Theorem C01_completeness : forall (K : Fld), FldOk K -> forall (M : Mod K), ModOk K M -> forall (g : gens K M)
  bits cap (values : list N) (promises : list (option N)) (blindings : list (list K)) (nn : nonces K) (ch : pchals K) (w : K) a,
  let m := length values in
  let N := m * bits in
  let T := length (g_Gb g) in
  1 <= bits -> m = 2 ^ a -> m <= cap ->
  length (g_G g) = bits * cap -> length (g_Hv g) = bits * cap ->
  N = 2 ^ length (pc_es ch) ->
  pc_y ch <> f0 K -> fsub K (pc_y ch) (f1 K) <> f0 K -> pc_e ch <> f0 K -> Forall (fun e => e <> f0 K) (pc_es ch) ->
  length promises = m -> length blindings = m -> Forall (fun r => length r = T) blindings ->
  wf_nonces K T (length (pc_es ch)) nn ->
  Forall (fun vp => match snd vp with Some mv => (mv <= fst vp)%N | None => True end) (combine values promises) ->
  Forall (fun vp => (offset_value (fst vp) (snd vp) < 2 ^ N.of_nat bits)%N) (combine values promises) ->
  let p := prove_core K M bits cap g values promises blindings nn ch in
  let commitments := map (fun vr => commit K M g (fofN K (fst vr)) (snd vr)) (combine values blindings) in
  terms_msm K M (proof_terms K bits promises (mkVproof K (pp_d1 p) (pp_r1 p) (pp_s1 p)) (mkChals K (pc_y ch) (pc_z ch) (pc_es ch) (pc_e ch)) w)
            (firstn N (g_G g)) (firstn N (g_Hv g)) commitments (g_H g) (g_Gb g) (pp_A1 p) (pp_B p) (pp_A p) (pp_L p) (pp_R p)
  = v0 M.
Proof. exact completeness. Qed.
Print Assumptions C01_completeness.

(** Non-vacuity: the premises of [C01_completeness] hold on a concrete instance (rationals as field and
    as vector space; 2 bits, 2 commitments, one with a promise; 2 rounds), so the theorem applies; and
    the model computes: the honest proof gives residual 0, the same proof with r1 + 1 does not. *)
Definition exg : gens QcF QcM := mkGens QcF QcM (q 2) [q 3] [q 5; q 7; q 11; q 13] [q 17; q 19; q 23; q 29].
Definition exnn : nonces QcF := mkNonces QcF [q 31] [[q 37]; [q 41]] [[q 43]; [q 47]] (q 53) (q 59) [q 61] [q 67].
Definition exch : pchals QcF := mkPchals QcF (q 2) (q 3) [q 5; q 7] (q 11).
Definition exvalues := [1%N; 3%N]. Definition expromises := [None; Some 1%N]. Definition exbl := [[q 71]; [q 73]].
Definition exp := prove_core QcF QcM 2 2 exg exvalues expromises exbl exnn exch.
Definition excm := map (fun vr => commit QcF QcM exg (fofN QcF (fst vr)) (snd vr)) (combine exvalues exbl).
Definition exres (r1 w : Qc) := terms_msm QcF QcM (proof_terms QcF 2 expromises (mkVproof QcF (pp_d1 exp) r1 (pp_s1 exp)) (mkChals QcF (q 2) (q 3) [q 5; q 7] (q 11)) w)
            (firstn 4 (g_G exg)) (firstn 4 (g_Hv exg)) excm (g_H exg) (g_Gb exg) (pp_A1 exp) (pp_B exp) (pp_A exp) (pp_L exp) (pp_R exp).
Example C01_ex_premises_hold : forall w : Qc, exres (pp_r1 exp) w = 0%Qc.
Proof.
  intros w.
  apply (C01_completeness QcF QcF_ok QcM QcM_ok exg 2 2 exvalues expromises exbl exnn exch w 1); try reflexivity; try (cbn; lia);
    try (cbn; discriminate); try (repeat constructor; cbn; try discriminate; try lia).
Qed.
Example C01_ex_computes : Qc_eq_bool (exres (pp_r1 exp) (q 9)) 0%Qc = true /\ Qc_eq_bool (exres (Qcplus (pp_r1 exp) 1%Qc) (q 9)) 0%Qc = false.
Proof. split; vm_compute; reflexivity. Qed.

(** the textbook residual of an honest proof is zero; with C03_batch_accepts_if_all_accept: any batch of
    honest members (mixed aggregation factors, any weights) ends with the identity *)
From BP Require Import Proofs.CompleteBatchP.
Theorem C01_honest_residual_zero : forall (K : Fld), FldOk K -> forall (M : Mod K), ModOk K M -> forall (g : gens K M)
  bits cap (values : list N) (promises : list (option N)) (blindings : list (list K)) (nn : nonces K) (ch : pchals K) a,
  let m := length values in
  let N := m * bits in
  let T := length (g_Gb g) in
  1 <= bits -> m = 2 ^ a -> m <= cap ->
  length (g_G g) = bits * cap -> length (g_Hv g) = bits * cap ->
  N = 2 ^ length (pc_es ch) ->
  pc_y ch <> f0 K -> fsub K (pc_y ch) (f1 K) <> f0 K -> pc_e ch <> f0 K -> Forall (fun e => e <> f0 K) (pc_es ch) ->
  length promises = m -> length blindings = m -> Forall (fun r => length r = T) blindings ->
  wf_nonces K T (length (pc_es ch)) nn ->
  Forall (fun vp => match snd vp with Some mv => (mv <= fst vp)%N | None => True end) (combine values promises) ->
  Forall (fun vp => (offset_value (fst vp) (snd vp) < 2 ^ N.of_nat bits)%N) (combine values promises) ->
  let p := prove_core K M bits cap g values promises blindings nn ch in
  let commitments := map (fun vr => commit K M g (fofN K (fst vr)) (snd vr)) (combine values blindings) in
  spec_residual K M bits (g_H g) (g_Gb g) (firstn N (g_G g)) (firstn N (g_Hv g)) commitments promises
    (mkRproof K M (pp_A p) (combine (pp_L p) (pp_R p)) (pp_A1 p) (pp_B p) (pp_r1 p) (pp_s1 p) (pp_d1 p))
    (pc_y ch) (pc_z ch) (pc_es ch) (pc_e ch) = v0 M.
Proof. exact honest_residual_zero. Qed.
Print Assumptions C01_honest_residual_zero.

(** THE PROPERTY AT THE TOP OF THE EXECUTED MODEL: the statement / proof pair the code-shaped prover makes
    for a valid witness passes EVERY guard of [verify_chunk] (Model/VerifyTop.v: statement consistency,
    extension degree of d1, promise range, transcript phase with its identity checks, non-zero challenges,
    round count, padding), in both verifying modes, and the final multiscalar product the model hands to
    the back end is the identity — so the model's verdict is Ok with one result, [mask_of mode mb].
    [enc]/[dec] are an abstract point encoding with dec (enc p) = p; [toN]/[ofN] likewise for scalars;
    "no absorbed point is the identity" is a premise (it is an error in the code too). *)
From BP Require Import Model.VerifyTop Model.Codec Proofs.BatchP Proofs.TopP Proofs.HonestTopP.
Local Close Scope N_scope.
Theorem C01_honest_chunk_accepted : forall (K : Fld), FldOk K -> forall (M : Mod K), ModOk K M ->
  forall (ofN : N -> K) (toN : K -> N), (forall x, ofN (toN x) = x) ->
  forall (enc : M -> N) (dec : N -> M), (forall p, dec (enc p) = p) ->
  forall (g : gens K M) bits cap (values : list N) (promises : list (option N)) (blindings : list (list K)) (nn : nonces K) (ch : pchals K)
         seeded nonce mode (w : K) a,
  let m := length values in
  let Nn := m * bits in
  let T := length (g_Gb g) in
  let mb := honest_member K M toN enc g bits cap values promises blindings nn ch seeded nonce in
  let p := prove_core K M bits cap g values promises blindings nn ch in
  1 <= bits -> m = 2 ^ a -> m <= cap ->
  length (g_G g) = bits * cap -> length (g_Hv g) = bits * cap ->
  Nn = 2 ^ length (pc_es ch) ->
  pc_y ch <> f0 K -> fsub K (pc_y ch) (f1 K) <> f0 K -> pc_z ch <> f0 K -> pc_e ch <> f0 K -> Forall (fun e => e <> f0 K) (pc_es ch) ->
  length promises = m -> length blindings = m -> Forall (fun r => length r = T) blindings ->
  wf_nonces K T (length (pc_es ch)) nn ->
  Forall (fun vp => match snd vp with Some mv => (mv <= fst vp)%N | None => True end) (combine values promises) ->
  Forall (fun vp => (offset_value (fst vp) (snd vp) < 2 ^ N.of_nat bits)%N) (combine values promises) ->
  1 <= T <= 6 -> length (pc_es ch) < 64 -> (2 * N.of_nat bits * N.of_nat cap < 2 ^ 64)%N ->
  forallb (promise_fits bits) promises = true ->
  enc (g_H g) <> 0%N -> Forall (fun q => enc q <> 0%N) (g_Gb g) ->
  enc (pp_A p) <> 0%N -> enc (pp_A1 p) <> 0%N -> enc (pp_B p) <> 0%N ->
  Forall (fun q => enc q <> 0%N) (pp_L p) -> Forall (fun q => enc q <> 0%N) (pp_R p) ->
  mode <> RecoverOnly ->
  exists sc,
    verify_chunk K ofN mode [mb] [w] true = (Ok [mask_of K ofN mode mb], Some sc) /\
    vadd M (msm (fst sc) (interleaveM K M (g_G g) (g_Hv g))) (msm (snd sc) (dyn_of K M (pts_of K M dec mb) ++ g_Gb g ++ [g_H g])) = v0 M.
Proof. intros K Kok M Mok ofN toN OT enc dec DE g. exact (honest_chunk_accepted K Kok M Mok ofN toN OT enc dec DE g). Qed.
Print Assumptions C01_honest_chunk_accepted.

(** ... AND FOR WHOLE CHUNKS: any chunk of statement / proof pairs made by the code-shaped prover for valid witnesses over
    one parameter set — mixed aggregation factors, promises, seeded or not, any order, ANY weights — passes every guard of
    [verify_chunk] and the final product is the identity (also the "if" half of C03 on the executed model).  [hp_ok] collects,
    per member, exactly the member-dependent premises of the one-member theorem above. *)
From BP Require Import Proofs.HonestBatchTopP.
Theorem C01_honest_chunk_of_many_accepted : forall (K : Fld), FldOk K -> forall (M : Mod K), ModOk K M ->
  forall (ofN : N -> K) (toN : K -> N), (forall x, ofN (toN x) = x) ->
  forall (enc : M -> N) (dec : N -> M), (forall p, dec (enc p) = p) ->
  forall (g : gens K M) bits cap,
  1 <= bits -> length (g_G g) = bits * cap -> length (g_Hv g) = bits * cap -> 1 <= length (g_Gb g) <= 6 ->
  (2 * N.of_nat bits * N.of_nat cap < 2 ^ 64)%N -> enc (g_H g) <> 0%N -> Forall (fun q => enc q <> 0%N) (g_Gb g) ->
  forall (h0 : hparams K) (hs : list (hparams K)) mode (ws : list K),
  Forall (hp_ok K M enc g bits cap) (h0 :: hs) -> mode <> RecoverOnly ->
  let ms := map (hmember K M toN enc g bits cap) (h0 :: hs) in
  exists sc,
    verify_chunk K ofN mode ms ws true = (Ok (map (mask_of K ofN mode) ms), Some sc) /\
    vadd M (msm (fst sc) (interleaveM K M (g_G g) (g_Hv g)))
           (msm (snd sc) (flat_map (dyn_of K M) (map (pts_of K M dec) ms) ++ g_Gb g ++ [g_H g])) = v0 M.
Proof. intros K Kok M Mok ofN toN OT enc dec DE g bits cap. exact (honest_chunk_accepted_multi K Kok M Mok ofN toN OT enc dec DE g bits cap). Qed.
Print Assumptions C01_honest_chunk_of_many_accepted.
