(** C01 — completeness.
    Proved so far: completeness of the textbook zero-knowledge weighted-inner-product argument
    (Model/Spec.v) for EVERY number of rounds, half-length, number of blinding generators, field and
    vector space, and that the prover's vector commitment does not depend on the capacity.
    The full property statement [C01_completeness_statement] is kept below; the two refinement steps
    that connect it to these theorems are listed at the end (they are exercised on every run by the
    coordinate-level correspondence of Exec/ProveExec and Exec/VerifyExec, not yet proved). *)
From Coq Require Import List Arith NArith Bool.
From BP Require Import Base.Field Model.Spec Model.Verifier Model.Prover Proofs.WipP Proofs.GuardsP.
Import ListNotations.

(** completeness of the whole argument, any number of rounds *)
Theorem C01_wip_complete : forall (K : Fld), FldOk K -> forall (M : Mod K), ModOk K M -> forall (H : M) (Gb : list M)
  y, y <> f0 K -> forall rs (a b alpha : list K) (G Hs : list M) e r s d eta,
  let k := length rs in
  length a = Nat.pow 2 k -> length b = Nat.pow 2 k -> length G = Nat.pow 2 k -> length Hs = Nat.pow 2 k ->
  Forall (wf_round K (length alpha)) rs -> length d = length alpha -> length eta = length alpha ->
  let '(af, bf, alphaf) := final_state K y rs a b alpha in
  let '(Pf, Gf, Hf) := verifier_fold K M y (map r_e rs) (prover_msgs K M H Gb y rs a b alpha G Hs) (Com K M H Gb y a b alpha G Hs) G Hs in
  let a0 := hd (f0 K) af in let b0 := hd (f0 K) bf in let G0 := hd (v0 M) Gf in let H0 := hd (v0 M) Hf in
  final_check K M H Gb y e Pf (final_A1 K M H Gb y a0 b0 r s d G0 H0) (final_B K M H Gb y r s eta)
     (fadd K r (fmul K a0 e)) (fadd K s (fmul K b0 e)) (final_d1 K e alphaf d eta) G0 H0.
Proof. intros K Kok M Mok H Gb. exact (wip_complete K Kok M Mok H Gb). Qed.
Print Assumptions C01_wip_complete.

(** the prover's vector commitment through the interleaved, zero-padded table is the textbook one *)
Theorem C01_commit_A_textbook : forall (K : Fld), FldOk K -> forall (M : Mod K), ModOk K M ->
  forall (g : gens K M) aL aR alpha padding,
  length aL = length aR -> length aL <= length (g_G g) -> length aL <= length (g_Hv g) ->
  commit_A K M g aL aR alpha padding = vadd M (vadd M (msm aL (g_G g)) (msm aR (g_Hv g))) (msm alpha (g_Gb g)).
Proof. exact commit_A_capacity_independent. Qed.
Print Assumptions C01_commit_A_textbook.

(** THE FULL STATEMENT (not yet a theorem): for a valid witness the code-shaped prover's output makes
    the code-shaped verifier's final multiscalar product vanish.  [msm] runs over the verifier's scalars
    against (table ++ commitments ++ [A1; B; A] ++ L ++ R ++ Gb ++ [H]). *)
Definition C01_completeness_statement : Prop :=
  forall (K : Fld), FldOk K -> forall (M : Mod K), ModOk K M ->
  forall bits cap (g : gens K M) values promises blindings (nn : nonces K) (ch : pchals K) (w : K) ofN,
  let m := length values in
  length (g_G g) = bits * cap -> length (g_Hv g) = bits * cap -> m <= cap -> bits * m = 2 ^ length (pc_es ch) ->
  pc_y ch <> f0 K -> fsub K (pc_y ch) (f1 K) <> f0 K -> pc_z ch <> f0 K -> pc_e ch <> f0 K -> Forall (fun e => e <> f0 K) (pc_es ch) ->
  length promises = m -> length blindings = m ->
  Forall (fun vp => match snd vp with Some mv => (mv <= fst vp)%N | None => True end) (combine values promises) ->
  Forall (fun vp => (offset_value (fst vp) (snd vp) < 2 ^ N.of_nat bits)%N) (combine values promises) ->
  (forall a b, ofN (a + b)%N = fadd K (ofN a) (ofN b)) -> ofN 1%N = f1 K ->
  let p := prove_core K M bits cap g values promises blindings nn ch in
  let commitments := map (fun vr => commit K M g (ofN (fst vr)) (snd vr)) (combine values blindings) in
  let t := proof_terms K bits promises (mkVproof K (pp_d1 p) (pp_r1 p) (pp_s1 p)) (mkChals K (pc_y ch) (pc_z ch) (pc_es ch) (pc_e ch)) w in
  vadd M (vadd M (msm (t_gi t) (g_G g)) (msm (t_hi t) (g_Hv g)))
         (msm (t_V t ++ [t_A1 t; t_B t; t_A t] ++ t_L t ++ t_R t ++ t_Gb t ++ [t_H t])
              (commitments ++ [pp_A1 p; pp_B p; pp_A p] ++ pp_L p ++ pp_R p ++ g_Gb g ++ [g_H g])) = v0 M.
(** Missing to derive it from the theorems above: (1) [prover_refines_spec] — the code-shaped folding loop
    of Model/Prover.v emits the messages of Model/Spec.v; (2) [range_reduction] + [verifier_equiv] — the
    code-shaped verifier scalars equal the textbook check on P_0 (C02).  Both are checked coordinate by
    coordinate against the implementation on every run. *)
