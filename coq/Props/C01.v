(** C01 - placeholder until the completeness theorems land. *)
From Coq Require Import List.
From BP Require Import Base.Field Model.Verifier.
Theorem C01_placeholder : forall (K : Fld) n T, length (a_Gb (acc_init K n T)) = T.
Proof. intros. unfold acc_init; cbn. now rewrite repeat_length. Qed.
Print Assumptions C01_placeholder.
