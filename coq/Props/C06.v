(** C06 — the prover emits a proof exactly when the witness is valid: the guard is the relation. *)
From Coq Require Import List Arith NArith Bool.
From BP Require Import Base.Field Model.Prover Proofs.GuardsP.
Import ListNotations.

(** the boolean guard of the prover model (opening count, extension degree, value range with the 64-bit
    special case, re-commitment of every opening under the statement's generators, promise <= value)
    holds exactly for the witnesses of the property's relation, for all u64 values and all bit lengths *)
Theorem C06_witness_valid_iff : forall (K : Fld) (M : Mod K), ModOk K M ->
  forall bits T ofN (g : gens K M) commitments promises values blindings wT,
  length values = length blindings -> length values = length promises ->
  (witness_valid K M bits T ofN g commitments promises values blindings wT = true <->
   (length values = length commitments /\ wT = T /\
    Forall (fun v => bits < 64 -> (v < 2 ^ N.of_nat bits)%N) values /\
    Forall (fun vc => let '(v, r, c) := vc in 1 <= length r <= T /\ commit K M g (ofN v) r = c) (combine (combine values blindings) commitments) /\
    Forall (fun vp => match snd vp with Some mv => (mv <= fst vp)%N | None => True end) (combine values promises))).
Proof. exact witness_valid_iff. Qed.
Print Assumptions C06_witness_valid_iff.

(** at 64 bits the range guard accepts every u64 *)
Theorem C06_shift_guard_64 : forall v : N, (0 <? N.shiftr v (N.of_nat 64))%N = true <-> (2 ^ 64 <= v)%N.
Proof. intros v. exact (shiftr_pos_iff v 64). Qed.
Print Assumptions C06_shift_guard_64.

Theorem C06_offset_is_value_minus_promise : forall v p, offset_value v (Some p) = (v - p)%N /\ offset_value v None = v.
Proof. intros; split; reflexivity. Qed.
Print Assumptions C06_offset_is_value_minus_promise.

(** THE PROPERTY AT THE TOP OF THE EXECUTED MODEL.  [prove_top] (Model/Prover.v) is prove_with_rng as a whole: the witness
    guard in front of the proof computation.  It returns a proof exactly when the guard holds — and the guard is the witness
    relation (C06_witness_valid_iff) — ... *)
From BP Require Import Proofs.ProveTopP Proofs.CompleteP Proofs.HonestTopP Proofs.TopP Proofs.BatchP Model.VerifyTop Model.Codec Model.Verifier.
Local Close Scope N_scope.
Theorem C06_prove_emits_iff_witness_valid : forall (K : Fld) (M : Mod K) bits cap T (g : gens K M) commitments promises values blindings wT nn ch,
  (exists p, prove_top K M bits cap T g commitments promises values blindings wT nn ch = Some p) <->
  witness_valid K M bits T (fofN K) g commitments promises values blindings wT = true.
Proof. exact prove_top_some_iff. Qed.
Print Assumptions C06_prove_emits_iff_witness_valid.

(** in particular the prover's DECISION does not depend on the randomness it is handed (nonces, hence the external generator) nor on the challenges:
    what the check tests by proving every invalid witness again under zero / constant / periodic generators *)
Theorem C06_prover_decision_independent_of_randomness : forall (K : Fld) (M : Mod K) bits cap T (g : gens K M) commitments promises values blindings wT nn ch nn' ch',
  (prove_top K M bits cap T g commitments promises values blindings wT nn ch = None) <->
  (prove_top K M bits cap T g commitments promises values blindings wT nn' ch' = None).
Proof. exact prove_top_decision_independent. Qed.
Print Assumptions C06_prover_decision_independent_of_randomness.

(** ... and whenever it returns a proof, that proof verifies: presented with the statement's own commitments (first two
    conjuncts: the member record the verifier sees carries exactly them and exactly the emitted proof), it passes every guard
    of [verify_chunk] in both verifying modes and the final multiscalar product is the identity.  Hypotheses: what the
    validating constructors guarantee (C17), the typing of u64, and the oracles (challenges as the transcript checks them,
    nonces of the shape C13 gives them, no absorbed point is the identity — an error in the code too).  The verifier's
    promise guard needs no hypothesis: a valid witness keeps every promise inside the bit length ([valid_promises_fit]). *)
Theorem C06_emitted_proof_verifies : forall (K : Fld), FldOk K -> forall (M : Mod K), ModOk K M ->
  forall (ofN : N -> K) (toN : K -> N), (forall x, ofN (toN x) = x) ->
  forall (enc : M -> N) (dec : N -> M), (forall p, dec (enc p) = p) ->
  forall (g : gens K M) bits cap (commitments : list M) (values : list N) (promises : list (option N)) (blindings : list (list K)) wT
         (nn : nonces K) (ch : pchals K) seeded nonce mode (w : K) a p,
  let m := length values in
  let T := length (g_Gb g) in
  prove_top K M bits cap T g commitments promises values blindings wT nn ch = Some p ->
  1 <= bits <= 64 -> m = 2 ^ a -> m <= cap -> length (g_G g) = bits * cap -> length (g_Hv g) = bits * cap ->
  1 <= T <= 6 -> (2 * N.of_nat bits * N.of_nat cap < 2 ^ 64)%N ->
  length promises = m -> length blindings = m -> Forall (fun r => length r = wT) blindings ->
  Forall (fun v => (v < 2 ^ 64)%N) values ->
  m * bits = 2 ^ length (pc_es ch) -> length (pc_es ch) < 64 ->
  pc_y ch <> f0 K -> fsub K (pc_y ch) (f1 K) <> f0 K -> pc_z ch <> f0 K -> pc_e ch <> f0 K -> Forall (fun e => e <> f0 K) (pc_es ch) ->
  wf_nonces K T (length (pc_es ch)) nn ->
  enc (g_H g) <> 0%N -> Forall (fun q => enc q <> 0%N) (g_Gb g) ->
  enc (pp_A p) <> 0%N -> enc (pp_A1 p) <> 0%N -> enc (pp_B p) <> 0%N ->
  Forall (fun q => enc q <> 0%N) (pp_L p) -> Forall (fun q => enc q <> 0%N) (pp_R p) ->
  mode <> RecoverOnly ->
  let mb := honest_member K M toN enc g bits cap values promises blindings nn ch seeded nonce in
  mb_Venc K mb = map enc commitments /\
  mb_proof K mb = mkProof (N.of_nat T) (map toN (pp_d1 p)) (enc (pp_A p)) (enc (pp_A1 p)) (enc (pp_B p)) (toN (pp_r1 p)) (toN (pp_s1 p))
                          (map enc (pp_L p)) (map enc (pp_R p)) /\
  exists sc,
    verify_chunk K ofN mode [mb] [w] true = (Ok [mask_of K ofN mode mb], Some sc) /\
    vadd M (msm (fst sc) (interleaveM K M (g_G g) (g_Hv g))) (msm (snd sc) (dyn_of K M (pts_of K M dec mb) ++ g_Gb g ++ [g_H g])) = v0 M.
Proof. intros K Kok M Mok ofN toN OT enc dec DE. exact (emitted_proof_verifies K Kok M Mok ofN toN OT enc dec DE). Qed.
Print Assumptions C06_emitted_proof_verifies.

(** ... and with the prover's own error exits inside the model ([prove_full], Model/ProveFull.v: witness guard, then the proof
    computation during which the transcript refuses identity points and zero challenges): WHENEVER IT RETURNS A PROOF, THE VERIFIER
    ACCEPTS IT.  The premises "no absorbed point is the identity" and "no challenge is zero" of the theorem above are gone — they are
    what the prover itself checked; what remains is what the validating constructors guarantee, the typing of u64, the shape of the
    oracles (one round challenge per halving, nonces as C13 shapes them) and y <> 1, which the code does not check (probability 1/l). *)
From BP Require Import Model.ProveFull Proofs.ProveFullP.
Theorem C06_whatever_the_prover_returns_verifies : forall (K : Fld), FldOk K -> forall (M : Mod K), ModOk K M ->
  forall (ofN : N -> K) (toN : K -> N), (forall x, ofN (toN x) = x) ->
  forall (enc : M -> N) (dec : N -> M), (forall p, dec (enc p) = p) ->
  forall (g : gens K M) bits cap (commitments : list M) (values : list N) (promises : list (option N)) (blindings : list (list K)) wT prover_seeded
         (nn : nonces K) (ch : pchals K) seeded nonce mode (w : K) a p,
  let m := length values in
  let T := length (g_Gb g) in
  prove_full K M toN enc bits cap g commitments promises values blindings wT prover_seeded nn ch = Some p ->
  1 <= bits <= 64 -> m = 2 ^ a -> m <= cap -> length (g_G g) = bits * cap -> length (g_Hv g) = bits * cap ->
  1 <= T <= 6 -> (2 * N.of_nat bits * N.of_nat cap < 2 ^ 64)%N ->
  length promises = m -> length blindings = m -> Forall (fun r => length r = wT) blindings ->
  Forall (fun v => (v < 2 ^ 64)%N) values ->
  m * bits = 2 ^ length (pc_es ch) -> length (pc_es ch) < 64 -> fsub K (pc_y ch) (f1 K) <> f0 K ->
  wf_nonces K T (length (pc_es ch)) nn ->
  mode <> RecoverOnly ->
  let mb := honest_member K M toN enc g bits cap values promises blindings nn ch seeded nonce in
  mb_Venc K mb = map enc commitments /\ mb_proof K mb = wire_of K M toN enc T p /\
  exists sc,
    verify_chunk K ofN mode [mb] [w] true = (Ok [mask_of K ofN mode mb], Some sc) /\
    vadd M (msm (fst sc) (interleaveM K M (g_G g) (g_Hv g))) (msm (snd sc) (dyn_of K M (pts_of K M dec mb) ++ g_Gb g ++ [g_H g])) = v0 M.
Proof. intros K Kok M Mok ofN toN OT enc dec DE. exact (proof_of_prove_full_verifies K Kok M Mok ofN toN OT enc dec DE). Qed.
Print Assumptions C06_whatever_the_prover_returns_verifies.
