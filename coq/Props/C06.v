(** C06 — the prover emits a proof exactly when the witness is valid: the guard is the relation. *)
From Coq Require Import List Arith NArith Bool.
From BP Require Import Base.Field Model.Prover Proofs.GuardsP.
Import ListNotations.

(** the boolean guard of the prover model (opening count, extension degree, value range with the 64-bit
    special case, re-commitment of every opening under the statement's generators, promise <= value)
    holds exactly for the witnesses of the property's relation, for all u64 values and all bit lengths *)
Theorem C06_witness_valid_iff : forall (K : Fld) (M : Mod K), ModOk K M ->
  forall bits T ofN (g : gens K M) commitments promises values blindings wT,
  length values = length blindings -> length values = length promises ->
  (witness_valid K M bits T ofN g commitments promises values blindings wT = true <->
   (length values = length commitments /\ wT = T /\
    Forall (fun v => bits < 64 -> (v < 2 ^ N.of_nat bits)%N) values /\
    Forall (fun vc => let '(v, r, c) := vc in 1 <= length r <= T /\ commit K M g (ofN v) r = c) (combine (combine values blindings) commitments) /\
    Forall (fun vp => match snd vp with Some mv => (mv <= fst vp)%N | None => True end) (combine values promises))).
Proof. exact witness_valid_iff. Qed.
Print Assumptions C06_witness_valid_iff.

(** at 64 bits the range guard accepts every u64 *)
Theorem C06_shift_guard_64 : forall v : N, (0 <? N.shiftr v (N.of_nat 64))%N = true <-> (2 ^ 64 <= v)%N.
Proof. intros v. exact (shiftr_pos_iff v 64). Qed.
Print Assumptions C06_shift_guard_64.

Theorem C06_offset_is_value_minus_promise : forall v p, offset_value v (Some p) = (v - p)%N /\ offset_value v None = v.
Proof. intros; split; reflexivity. Qed.
Print Assumptions C06_offset_is_value_minus_promise.
