(** C06 - placeholder until the guard theorems land. *)
From Coq Require Import List NArith.
From BP Require Import Base.Field Model.Prover.
Theorem C06_offset_none : forall v, offset_value v None = v.
Proof. reflexivity. Qed.
Print Assumptions C06_offset_none.
